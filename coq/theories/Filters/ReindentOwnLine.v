(* reindent_own_line_partial: after _split_kwds every token selected by the split-word automaton
   (matched by the split-word test, outside BETWEEN ... AND) is preceded by a newline. *)
From SqlModel Require Import Base PyStr Re Node Inv Passes.
From SqlModel.Gen Require Import CaseTabs.
From SqlModel.Filters Require Import RxStripWs RxSerial Reindent ReindentSpec ReindentFacts.
From Coq Require Import ZArith.

(* ---- the automaton --------------------------------------------------------------------------- *)
Lemma sel_length : forall l d, length (sel d l) = length l.
Proof. induction l as [|x l IH]; intros d; cbn [sel length]; [reflexivity | rewrite IH; reflexivity]. Qed.

Lemma sel_app : forall X Y d, sel d (X ++ Y) = sel d X ++ sel (st_after d X) Y.
Proof.
  induction X as [|x X IH]; intros Y d; [reflexivity|].
  cbn [app sel st_after]. rewrite IH. reflexivity.
Qed.

Lemma st_after_app : forall X Y d, st_after d (X ++ Y) = st_after (st_after d X) Y.
Proof. induction X as [|x X IH]; intros Y d; [reflexivity|]. cbn [app st_after]. apply IH. Qed.

Lemma sel_step_nonmatch d x : split_match x = false -> sel_step d x = (false, d).
Proof. unfold sel_step. intros ->. reflexivity. Qed.

Lemma sel_nonmatch : forall M d, Forall (fun y => split_match y = false) M ->
  sel d M = repeat false (length M) /\ st_after d M = d.
Proof.
  induction M as [|x M IH]; intros d HF; [split; reflexivity|].
  inversion HF as [|? ? Hx HM]; subst. cbn [sel st_after length repeat].
  rewrite (sel_step_nonmatch d x Hx). cbn [fst snd]. destruct (IH d HM) as [-> ->]. split; reflexivity.
Qed.

Lemma is_ws_nonmatch p : is_ws p = true -> split_match p = false.
Proof.
  destruct p as [ty v | c v k]; [|reflexivity]. unfold is_ws, tt_in, split_match.
  destruct ty as [|a ty]; [discriminate|]. destruct a; try discriminate. intros _. reflexivity.
Qed.

Lemma repeat_snoc {A} (x : A) n : repeat x (S n) = repeat x n ++ [x].
Proof. induction n as [|n IH]; [reflexivity|]. cbn [repeat app] in *. rewrite <- IH. reflexivity. Qed.

Lemma repeat_app_false a b : repeat false a ++ repeat false b = repeat false (a + b).
Proof. symmetry. apply repeat_app. Qed.

(* ---- searching, in decomposed form ----------------------------------------------------------- *)
Lemma find_from_aux_decomp f : forall Sx base,
  match find_from_aux f Sx base with
  | Some (i, x) => exists M R, Sx = M ++ x :: R /\ i = base + length M /\
                               Forall (fun y => f y = false) M /\ f x = true
  | None => Forall (fun y => f y = false) Sx
  end.
Proof.
  induction Sx as [|y Sx IH]; intros base; cbn [find_from_aux]; [constructor|].
  destruct (f y) eqn:Ey.
  - exists [], Sx. cbn [app length]. rewrite Nat.add_0_r. auto.
  - specialize (IH (S base)). destruct (find_from_aux f Sx (S base)) as [[i x]|].
    + destruct IH as [M [R [-> [-> [HM Hx]]]]]. exists (y :: M), R. cbn [app length].
      split; [reflexivity|]. split; [lia|]. split; [constructor; assumption | exact Hx].
    + constructor; assumption.
Qed.

Lemma skipn_app_exact {A} (X Y : list A) : skipn (length X) (X ++ Y) = Y.
Proof. induction X as [|x X IH]; [reflexivity | exact IH]. Qed.

Lemma firstn_app_exact {A} (X Y : list A) : firstn (length X) (X ++ Y) = X.
Proof. induction X as [|x X IH]; [reflexivity|]. cbn [length app firstn]. rewrite IH. reflexivity. Qed.

Lemma find_from_app f (A Sx : list node) : find_from f (length A) (A ++ Sx) = find_from_aux f Sx (length A).
Proof. unfold find_from. rewrite skipn_app_exact. reflexivity. Qed.

(* ---- _next_token against the automaton ------------------------------------------------------- *)
Definition nt_some_spec (start : nat) (Sx : list node) (i : nat) (tok : node) : Prop :=
  exists M R, Sx = M ++ tok :: R /\ i = start + length M /\ split_match tok = true /\
              is_between tok = false /\
              forall d, sel d M = repeat false (length M) /\ (is_and tok = true -> st_after d M = d).

Lemma next_token_spec : forall fuel A Sx r,
  next_token fuel (A ++ Sx) (length A) = Ok r ->
  match r with
  | Some (i, tok) => nt_some_spec (length A) Sx i tok
  | None => forall d, sel d Sx = repeat false (length Sx)
  end.
Proof.
  induction fuel as [|f IH]; intros A Sx r H; cbn [next_token] in H; [discriminate|].
  rewrite find_from_app in H.
  pose proof (find_from_aux_decomp split_match Sx (length A)) as Hf.
  destruct (find_from_aux split_match Sx (length A)) as [[tidx tok1]|].
  2:{ injection H as <-. intros d. apply sel_nonmatch; exact Hf. }
  destruct Hf as [M1 [R1 [HS [Hi [HM1 Hx1]]]]].
  destruct (text_eqb (normalized tok1) s_BETWEEN) eqn:Eb.
  2:{ injection H as <-. exists M1, R1. repeat split; try assumption.
      - apply sel_nonmatch; exact HM1.
      - intros _. apply sel_nonmatch; exact HM1. }
  (* BETWEEN *)
  assert (Hstep1 : forall d, sel_step d tok1 = (false, S d)).
  { intros d. unfold sel_step, is_between. rewrite Hx1, Eb. reflexivity. }
  assert (HA1 : A ++ Sx = (A ++ M1 ++ [tok1]) ++ R1).
  { rewrite HS. rewrite <- !app_assoc. reflexivity. }
  assert (HL1 : length (A ++ M1 ++ [tok1]) = S tidx).
  { rewrite !app_length. cbn [length]. lia. }
  destruct (next_token f (A ++ Sx) (S tidx)) as [r2|] eqn:E2; cbn [bind] in H; [|discriminate].
  rewrite HA1, <- HL1 in E2. apply IH in E2.
  destruct r2 as [[tidx2 tok2]|].
  2:{ injection H as <-. intros d. rewrite HS, sel_app. cbn [sel]. rewrite Hstep1. cbn [fst snd].
      destruct (sel_nonmatch M1 d HM1) as [-> ->]. rewrite E2.
      rewrite app_length. cbn [length]. rewrite <- repeat_app_false. reflexivity. }
  destruct E2 as [M2 [R2 [HR1 [Hi2 [Hx2 [Hnb2 Hsel2]]]]]].
  destruct (text_eqb (normalized tok2) s_AND) eqn:Ea.
  2:{ injection H as <-. exists (M1 ++ tok1 :: M2), R2. split; [rewrite HS, HR1, <- app_assoc; reflexivity|].
      split; [rewrite app_length; cbn [length]; rewrite HL1 in Hi2; lia|].
      split; [exact Hx2|]. split; [exact Hnb2|]. intros d. split.
      - rewrite sel_app. cbn [sel]. rewrite Hstep1. cbn [fst snd].
        destruct (sel_nonmatch M1 d HM1) as [-> ->]. destruct (Hsel2 (S d)) as [-> _].
        rewrite app_length. cbn [length repeat]. rewrite <- repeat_app_false. reflexivity.
      - unfold is_and. rewrite Ea. discriminate. }
  (* tok2 = AND closes the BETWEEN *)
  assert (Hstep2 : forall d, sel_step (S d) tok2 = (false, d)).
  { intros d. unfold sel_step, is_and. rewrite Hx2, Hnb2, Ea. cbn [Nat.eqb negb andb].
    f_equal. lia. }
  assert (HA2 : A ++ Sx = (A ++ M1 ++ tok1 :: M2 ++ [tok2]) ++ R2).
  { rewrite HS, HR1. rewrite <- !app_assoc. cbn [app]. rewrite <- !app_assoc. reflexivity. }
  assert (HL2 : length (A ++ M1 ++ tok1 :: M2 ++ [tok2]) = S tidx2).
  { rewrite HL1 in Hi2. rewrite !app_length. cbn [length]. rewrite app_length. cbn [length]. lia. }
  rewrite HA2, <- HL2 in H. apply IH in H.
  assert (Hpre : forall d, sel d (M1 ++ tok1 :: M2 ++ [tok2]) = repeat false (length (M1 ++ tok1 :: M2 ++ [tok2]))
                           /\ st_after d (M1 ++ tok1 :: M2 ++ [tok2]) = d).
  { intros d. rewrite sel_app, st_after_app. cbn [sel st_after]. rewrite Hstep1. cbn [fst snd].
    destruct (sel_nonmatch M1 d HM1) as [-> ->].
    rewrite sel_app, st_after_app. cbn [sel st_after].
    destruct (Hsel2 (S d)) as [-> Hst]. unfold is_and in Hst. rewrite (Hst Ea), Hstep2. cbn [fst snd].
    split; [|reflexivity].
    rewrite !app_length. cbn [length]. rewrite app_length. cbn [length].
    change (false :: repeat false (length M2) ++ [false]) with (repeat false 1 ++ repeat false (length M2) ++ repeat false 1).
    rewrite !repeat_app_false. reflexivity. }
  assert (HSP : Sx = (M1 ++ tok1 :: M2 ++ [tok2]) ++ R2).
  { rewrite HS, HR1. rewrite <- !app_assoc. cbn [app]. rewrite <- !app_assoc. reflexivity. }
  assert (HLP : length A + length (M1 ++ tok1 :: M2 ++ [tok2]) = S tidx2).
  { rewrite <- HL2. rewrite (app_length A). reflexivity. }
  rewrite (app_length A) in H.
  set (P := M1 ++ tok1 :: M2 ++ [tok2]) in *.
  destruct r as [[i3 tok3]|].
  - destruct H as [M3 [R3 [HR2 [Hi3 [Hx3 [Hnb3 Hsel3]]]]]].
    exists (P ++ M3), R3.
    split; [rewrite HSP, HR2, <- app_assoc; reflexivity|].
    split; [rewrite (app_length P M3); lia|].
    split; [exact Hx3|]. split; [exact Hnb3|]. intros d.
    rewrite (sel_app P M3), (st_after_app P M3).
    destruct (Hpre d) as [-> ->]. destruct (Hsel3 d) as [-> Hst3].
    split; [rewrite (app_length P M3), <- repeat_app_false; reflexivity | exact Hst3].
  - intros d. rewrite HSP. rewrite (sel_app P R2). destruct (Hpre d) as [-> ->]. rewrite H.
    rewrite (app_length P R2), <- repeat_app_false. reflexivity.
Qed.

(* ---- list helpers ---------------------------------------------------------------------------- *)
Lemma list_rev_case {A} (l : list A) : l = [] \/ exists l0 x, l = l0 ++ [x].
Proof.
  destruct l as [|a l]; [left; reflexivity|]. right.
  destruct (@exists_last A (a :: l)) as [l0 [x E]]; [discriminate|]. eauto.
Qed.

Lemma find_last_aux_all f : (forall x, f x = true) -> forall X0 (p : node) base best,
  find_last_aux f (X0 ++ [p]) base best = Some (base + length X0, p).
Proof.
  intros Hf. induction X0 as [|x X0 IH]; intros p base best; cbn [app find_last_aux length].
  - rewrite Hf, Nat.add_0_r. reflexivity.
  - rewrite IH. f_equal. f_equal. lia.
Qed.

Lemma token_prev_ff_snoc X0 p Y :
  token_prev false false (length (X0 ++ [p])) ((X0 ++ [p]) ++ Y) = Some (length X0, p).
Proof.
  unfold token_prev, find_before. rewrite firstn_app_exact.
  rewrite find_last_aux_all; [reflexivity|]. intros x. reflexivity.
Qed.

Lemma remove_at_app (X : list node) p Y : remove_at (length X) (X ++ p :: Y) = X ++ Y.
Proof. induction X as [|x X IH]; [reflexivity|]. cbn [length app remove_at]. rewrite IH. reflexivity. Qed.

Lemma insert_at_app (X : list node) x Y : insert_at (length X) x (X ++ Y) = X ++ x :: Y.
Proof. unfold insert_at. rewrite firstn_app_exact, skipn_app_exact. reflexivity. Qed.

Lemma nth_app_repeat_false (X : list bool) n i :
  nth i (X ++ repeat false n) false = true -> nth i X false = true /\ i < length X.
Proof.
  intros H. destruct (Nat.lt_ge_cases i (length X)) as [Hlt | Hge].
  - rewrite app_nth1 in H by exact Hlt. auto.
  - rewrite app_nth2 in H by exact Hge. exfalso.
    destruct (Nat.lt_ge_cases (i - length X) n) as [Hl | Hg].
    + rewrite nth_repeat in H. discriminate.
    + rewrite nth_overflow in H; [discriminate | rewrite repeat_length; exact Hg].
Qed.

Lemma prev_ok_app nlv A B i : prev_ok nlv A i -> prev_ok nlv (A ++ B) i.
Proof.
  intros [p [Hi [Hn Hp]]]. exists p. split; [exact Hi|]. split; [|exact Hp].
  rewrite nth_error_app1; [exact Hn|]. apply nth_error_Some. rewrite Hn. discriminate.
Qed.

(* ---- the loop -------------------------------------------------------------------------------- *)
Definition pre_inv (nlv : node) (A : list node) : Prop :=
  st_after 0 A = 0 /\
  (forall i, nth i (sel 0 A) false = true -> prev_ok nlv A i) /\
  (A = [] \/ exists A0 k, A = A0 ++ [k] /\ is_ws k = false).

Lemma tok_selected s tok :
  split_match tok = true -> is_between tok = false -> (is_and tok = true -> s = 0) ->
  sel_step s tok = (true, 0).
Proof.
  intros Hm Hb Ha. unfold sel_step. rewrite Hm, Hb.
  destruct (is_and tok); [rewrite (Ha eq_refl)|]; reflexivity.
Qed.

Lemma pre_inv_extend nlv A M' tok Z q :
  pre_inv nlv A ->
  sel 0 M' = repeat false (length M') ->
  (is_and tok = true -> st_after 0 M' = 0) ->
  split_match tok = true -> is_between tok = false ->
  A ++ M' = Z ++ [q] -> (q = nlv \/ ends_nl (text_of q) = true) ->
  pre_inv nlv ((A ++ M') ++ [tok]).
Proof.
  intros [HstA [HokA _]] HselM HstM Hm Hb HZ Hq.
  assert (Hstep : sel_step (st_after 0 M') tok = (true, 0)) by (apply tok_selected; assumption).
  split; [|split].
  - rewrite !st_after_app, HstA. cbn [st_after]. rewrite Hstep. reflexivity.
  - intros i Hi. rewrite <- app_assoc in Hi |- *.
    rewrite sel_app, HstA, sel_app in Hi. cbn [sel] in Hi. rewrite Hstep, HselM in Hi. cbn [fst] in Hi.
    destruct (Nat.lt_ge_cases i (length (sel 0 A))) as [Hlt | Hge].
    + rewrite app_nth1 in Hi by exact Hlt. apply prev_ok_app. apply HokA; exact Hi.
    + rewrite app_nth2 in Hi by exact Hge.
      destruct (Nat.lt_ge_cases (i - length (sel 0 A)) (length M')) as [Hl | Hg].
      * rewrite app_nth1 in Hi by (rewrite repeat_length; exact Hl).
        rewrite nth_repeat in Hi. discriminate.
      * rewrite app_nth2 in Hi by (rewrite repeat_length; exact Hg). rewrite repeat_length in Hi.
        rewrite sel_length in *.
        destruct (i - length A - length M') as [|j] eqn:Ej;
          [|cbn [nth] in Hi; destruct j; discriminate].
        assert (Ei : i = length (A ++ M')) by (rewrite app_length; lia).
        exists q. rewrite app_assoc, HZ. rewrite HZ in Ei. rewrite app_length in Ei. cbn [length] in Ei.
        split; [lia|]. split; [|exact Hq].
        rewrite <- app_assoc. rewrite nth_error_app2 by lia.
        replace (i - 1 - length Z) with 0 by lia. reflexivity.
  - right. exists (A ++ M'), tok. split; [reflexivity|].
    destruct (is_ws tok) eqn:E; [|reflexivity]. rewrite (is_ws_nonmatch _ E) in Hm. discriminate.
Qed.

Lemma no_nl_tail M tok R : no_nl_ws_before_kw (M ++ tok :: R) -> no_nl_ws_before_kw R.
Proof.
  intros H X p k Y -> Hp Hk. apply (H (M ++ tok :: X) p k Y); [|exact Hp|exact Hk].
  rewrite <- app_assoc. reflexivity.
Qed.

Lemma loop_own_line nlv : split_match nlv = false -> forall fuel A Sx cur r,
  pre_inv nlv A -> no_nl_ws_before_kw Sx ->
  match cur with
  | Some (i, tok) => nt_some_spec (length A) Sx i tok
  | None => forall d, sel d Sx = repeat false (length Sx)
  end ->
  split_kwds_loop fuel nlv (A ++ Sx) cur = Ok r ->
  forall i, nth i (sel 0 r) false = true -> prev_ok nlv r i.
Proof.
  intros Hnl. induction fuel as [|f IH]; intros A Sx cur r Hinv Hno Hcur H.
  - destruct cur as [[tidx tok]|]; cbn [split_kwds_loop] in H; [discriminate|].
    injection H as <-. intros i Hi. destruct Hinv as [HstA [HokA _]].
    rewrite sel_app, HstA, Hcur in Hi. apply nth_app_repeat_false in Hi. destruct Hi as [Hi _].
    apply prev_ok_app. apply HokA; exact Hi.
  - destruct cur as [[tidx tok]|].
    2:{ cbn [split_kwds_loop] in H. injection H as <-. intros i Hi. destruct Hinv as [HstA [HokA _]].
        rewrite sel_app, HstA, Hcur in Hi. apply nth_app_repeat_false in Hi. destruct Hi as [Hi _].
        apply prev_ok_app. apply HokA; exact Hi. }
    destruct Hcur as [M [R [HS [Hidx [Hm [Hb Hsel]]]]]].
    destruct (Hsel 0) as [HselM HstM].
    assert (Hno' : no_nl_ws_before_kw R) by (rewrite HS in Hno; eapply no_nl_tail; exact Hno).
    (* what the rest of the loop does once the list is (A ++ M') ++ tok :: R *)
    assert (Hcont : forall M' Z q tidx2,
              sel 0 M' = repeat false (length M') ->
              (is_and tok = true -> st_after 0 M' = 0) ->
              A ++ M' = Z ++ [q] -> (q = nlv \/ ends_nl (text_of q) = true) ->
              tidx2 = length (A ++ M') ->
              bind (next_token (S (length ((A ++ M') ++ tok :: R))) ((A ++ M') ++ tok :: R) (S tidx2))
                   (fun nx => split_kwds_loop f nlv ((A ++ M') ++ tok :: R) nx) = Ok r ->
              forall i, nth i (sel 0 r) false = true -> prev_ok nlv r i).
    { intros M' Z q tidx2 HsM' HstM' HZ Hq -> Hb2.
      pose proof (pre_inv_extend nlv A M' tok Z q Hinv HsM' HstM' Hm Hb HZ Hq) as Hinv'.
      assert (HL : (A ++ M') ++ tok :: R = ((A ++ M') ++ [tok]) ++ R)
        by (rewrite <- (app_assoc (A ++ M') [tok] R); reflexivity).
      assert (HLen : S (length (A ++ M')) = length ((A ++ M') ++ [tok]))
        by (rewrite (app_length (A ++ M') [tok]); cbn [length]; lia).
      rewrite HL, HLen in Hb2.
      destruct (next_token (S (length (((A ++ M') ++ [tok]) ++ R))) (((A ++ M') ++ [tok]) ++ R)
                           (length ((A ++ M') ++ [tok]))) as [nx|] eqn:En; cbn [bind] in Hb2; [|discriminate].
      apply next_token_spec in En.
      eapply IH; [exact Hinv' | exact Hno' | exact En | exact Hb2]. }
    rewrite HS in H. rewrite app_assoc in H.
    assert (Htidx : tidx = length (A ++ M)) by (rewrite app_length; exact Hidx).
    clear Hidx.
    cbn [split_kwds_loop] in H.
    destruct (list_rev_case (A ++ M)) as [Enil | [AM0 [p EAM]]].
    + (* the keyword is the first token *)
      rewrite Enil in H, Htidx. cbn [length] in Htidx. subst tidx.
      apply app_eq_nil in Enil. destruct Enil as [-> ->].
      cbn [app token_prev find_before firstn find_last_aux] in H.
      change (insert_at 0 nlv (tok :: R)) with (([] ++ [nlv]) ++ tok :: R) in H.
      eapply (Hcont [nlv] [] nlv 1); [| | reflexivity | left; reflexivity | reflexivity | exact H].
      * cbn [sel]. rewrite (sel_step_nonmatch 0 nlv Hnl). reflexivity.
      * intros _. cbn [st_after]. rewrite (sel_step_nonmatch 0 nlv Hnl). reflexivity.
    + rewrite EAM in H, Htidx. subst tidx. rewrite token_prev_ff_snoc in H.
      destruct (is_ws p) eqn:Ews.
      * (* whitespace before the keyword: replaced by nl *)
        assert (HM : exists M0, M = M0 ++ [p] /\ AM0 = A ++ M0).
        { destruct (list_rev_case M) as [-> | [M0 [p' ->]]].
          - rewrite app_nil_r in EAM. destruct Hinv as [_ [_ [-> | [A0 [k [-> Hk]]]]]].
            + destruct AM0; discriminate.
            + apply app_inj_tail in EAM. destruct EAM as [_ ->]. rewrite Ews in Hk. discriminate.
          - rewrite app_assoc in EAM. apply app_inj_tail in EAM. destruct EAM as [<- <-]. eauto. }
        destruct HM as [M0 [-> ->]].
        assert (Hunl : ends_nl (text_of p) = false).
        { apply (Hno M0 p tok R); [rewrite HS, <- app_assoc; reflexivity | exact Ews | exact Hm]. }
        rewrite Hunl in H.
        rewrite (app_length (A ++ M0) [p]) in H. cbn [length] in H.
        replace (length (A ++ M0) + 1 - 1) with (length (A ++ M0)) in H by lia.
        rewrite <- (app_assoc (A ++ M0) [p]) in H. cbn [app] in H.
        rewrite remove_at_app, insert_at_app in H.
        assert (HsM0 : sel 0 M0 = repeat false (length M0) /\ st_after 0 (M0 ++ [p]) = st_after 0 M0).
        { rewrite sel_app in HselM. cbn [sel] in HselM.
          rewrite st_after_app. cbn [st_after].
          rewrite (sel_step_nonmatch _ p (is_ws_nonmatch _ Ews)) in HselM |- *. cbn [fst snd] in HselM |- *.
          split; [|reflexivity]. rewrite app_length in HselM. cbn [length] in HselM.
          rewrite Nat.add_1_r, repeat_snoc in HselM. apply app_inj_tail in HselM. tauto. }
        destruct HsM0 as [HsM0 HstM0].
        replace ((A ++ M0) ++ nlv :: tok :: R) with ((A ++ (M0 ++ [nlv])) ++ tok :: R) in H
          by (rewrite !app_assoc; rewrite <- (app_assoc _ [nlv]); reflexivity).
        eapply (Hcont (M0 ++ [nlv]) (A ++ M0) nlv); [| | apply app_assoc | left; reflexivity | | exact H].
        -- rewrite sel_app. cbn [sel]. rewrite (sel_step_nonmatch _ nlv Hnl), HsM0. cbn [fst].
           rewrite app_length. cbn [length]. rewrite Nat.add_1_r, repeat_snoc. reflexivity.
        -- intros Ha. rewrite st_after_app. cbn [st_after]. rewrite (sel_step_nonmatch _ nlv Hnl). cbn [snd].
           rewrite <- HstM0. apply HstM; exact Ha.
        -- rewrite !app_length. cbn [length]. lia.
      * (* a non-whitespace token before the keyword *)
        rewrite <- EAM in H.
        destruct (ends_nl (text_of p)) eqn:Eunl.
        -- eapply (Hcont M AM0 p); [exact HselM | exact HstM | exact EAM | right; exact Eunl | reflexivity | exact H].
        -- rewrite insert_at_app in H.
           replace ((A ++ M) ++ nlv :: tok :: R) with ((A ++ (M ++ [nlv])) ++ tok :: R) in H
             by (rewrite !app_assoc; rewrite <- (app_assoc _ [nlv]); reflexivity).
           eapply (Hcont (M ++ [nlv]) (A ++ M) nlv); [| | apply app_assoc | left; reflexivity | | exact H].
           ++ rewrite sel_app. cbn [sel]. rewrite (sel_step_nonmatch _ nlv Hnl), HselM. cbn [fst].
              rewrite app_length. cbn [length]. rewrite Nat.add_1_r, repeat_snoc. reflexivity.
           ++ intros Ha. rewrite st_after_app. cbn [st_after]. rewrite (sel_step_nonmatch _ nlv Hnl). cbn [snd].
              apply HstM; exact Ha.
           ++ rewrite !app_length. cbn [length]. lia.
Qed.

(* reindent_own_line_partial: after _split_kwds, every child selected by the split-word automaton
   (a Keyword leaf matching one of the split words, other than a BETWEEN and the AND that closes it)
   has a predecessor in the list, and that predecessor is the inserted nl() token or ends in a
   line break.  Hypothesis: no whitespace child ending in a line break directly precedes a matched
   keyword (see own_line_refuted). *)
Theorem reindent_own_line_partial o e l r :
  no_nl_ws_before_kw l -> split_kwds o e l = Ok r ->
  forall i, nth i (sel 0 r) false = true -> prev_ok (nl o e 0) r i.
Proof.
  intros Hno H. unfold split_kwds in H.
  destruct (next_token (S (length l)) l 0) as [first|] eqn:En; cbn [bind] in H; [|discriminate].
  change l with ([] ++ l) in En, H. change 0 with (length (@nil node)) in En.
  apply next_token_spec in En.
  eapply (loop_own_line (nl o e 0)); [reflexivity | | exact Hno | exact En | exact H].
  split; [reflexivity|]. split; [|left; reflexivity].
  intros i Hi. destruct i; discriminate.
Qed.
Print Assumptions reindent_own_line_partial.

Lemma nnwb_sound : forall l, nnwb l = true -> no_nl_ws_before_kw l.
Proof.
  induction l as [|a l IH]; intros H X p k Y E Hp Hk.
  - destruct X; discriminate.
  - destruct X as [|x X]; cbn [app] in E.
    + injection E as -> ->. cbn [nnwb] in H. rewrite Hp, Hk in H. cbn [andb] in H.
      destruct (ends_nl (text_of p)); [discriminate | reflexivity].
    + injection E as -> ->. cbn [nnwb] in H.
      assert (H' : nnwb (X ++ p :: k :: Y) = true).
      { destruct (X ++ p :: k :: Y) as [|b l'] eqn:E2; [reflexivity|].
        apply andb_true_iff in H. destruct H as [_ H]. exact H. }
      eapply IH; [exact H' | reflexivity | exact Hp | exact Hk].
Qed.

(* the hypotheses are satisfiable:  a from t where x and y between 1 and 2 or z  (tokens of a
   whitespace-stripped statement) *)
Definition kwl (s : list N) : node := Leaf T_Keyword s.
Definition nml (s : list N) : node := Leaf T_Name s.
Definition ex_list : list node :=
  [nml [97]; sp; kwl [102;114;111;109]; sp; nml [116]; sp; nml [120]; sp; kwl [97;110;100]; sp; nml [121]; sp;
   kwl [98;101;116;119;101;101;110]; sp; nml [49]; sp; kwl [97;110;100]; sp; nml [50]; sp; kwl [111;114]; sp; nml [122]]%N.
Definition ex_opts : ropts :=
  {| o_width := 2; o_tab := false; o_wrap := 0; o_comma_first := false; o_after_first := false;
     o_columns := false; o_compact := false |}.
Definition ex_env : env := {| e_off := 0; e_ind := 1 |}.

Example own_line_example :
  no_nl_ws_before_kw ex_list /\
  exists r, split_kwds ex_opts ex_env ex_list = Ok r /\
            sel 0 r = [false; false; true; false; false; false; false; false; true; false; false; false;
                       false; false; false; false; false; false; false; false; true; false; false] /\
            text_of_list r = [97; 10;32;32; 102;114;111;109; 32; 116; 32; 120; 10;32;32; 97;110;100; 32; 121; 32;
                              98;101;116;119;101;101;110; 32; 49; 32; 97;110;100; 32; 50; 10;32;32; 111;114; 32; 122]%N.
Proof.
  split; [apply nnwb_sound; vm_compute; reflexivity|].
  eexists. split; [vm_compute; reflexivity|]. split; vm_compute; reflexivity.
Qed.

(* Without the hypothesis the statement is false: a whitespace token that ends in a line break and
   directly precedes a matched keyword is deleted and NOT replaced (str(prev_) ends in '\n').
   This is what the real filter does to  'x, union y'  (the nl() that _process_identifierlist puts
   before the list item `union` at column 0 is '\n'; output 'x, union y'). *)
Theorem own_line_refuted :
  exists o e l r i, split_kwds o e l = Ok r /\ nth i (sel 0 r) false = true /\ ~ prev_ok (nl o e 0) r i.
Proof.
  exists ex_opts, ex_env, [nml [120]; Leaf T_Whitespace [10]; kwl [117;110;105;111;110]]%N.
  eexists. exists 1. split; [vm_compute; reflexivity|]. split; [vm_compute; reflexivity|].
  intros [p [_ [Hn [Hp | Hp]]]]; cbn in Hn; injection Hn as <-; [discriminate | vm_compute in Hp; discriminate].
Qed.
Print Assumptions own_line_refuted.
