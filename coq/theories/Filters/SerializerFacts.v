(* Facts about the model of split_unquoted_newlines / SerializerUnicode (Filters/Serializer.v). *)
From SqlModel Require Import Base PyStr Re MinWidth.
From SqlModel.Gen Require Import CaseTabs SplitRx.
From SqlModel.Filters Require Import Serializer.

(* ================================================================================================
   totality: SPLIT_REGEX has minimum width 1, so re.split never sees an empty match
   ================================================================================================ *)
Lemma match_cap_width lo rx x k g :
  match_cap lo rx x = Some (k, g) -> minw rx <= k /\ k <= length (rest x).
Proof.
  unfold match_cap. destruct (ends lo rx x []) as [|[x' c'] l] eqn:E; [discriminate|].
  intros H; injection H as <- _.
  assert (Hin : In (x', c') (ends lo rx x [])) by (rewrite E; left; reflexivity).
  apply ends_adv in Hin. apply adv_length in Hin. lia.
Qed.

Lemma re_split_go_total lo rx : 1 <= minw rx -> forall t p skip gap,
  exists ps, re_split_go lo rx p skip gap t = Ok ps.
Proof.
  intros Hw. induction t as [|ch tl IH]; intros p skip gap; cbn [re_split_go]; [eauto|].
  destruct skip as [|k]; [|apply IH].
  destruct (match_cap lo rx (mkSt p (ch :: tl))) as [[n g]|] eqn:E; [|apply IH].
  apply match_cap_width in E. destruct n as [|n']; [lia|].
  destruct (IH (Some ch) n' []) as (r & ->). simpl. eauto.
Qed.

Lemma split_regex_minw : minw split_regex = 1.
Proof. reflexivity. Qed.

Theorem split_unquoted_newlines_total : forall t, exists lines, split_unquoted_newlines t = Ok lines.
Proof.
  intros t. unfold split_unquoted_newlines, re_split.
  destruct (re_split_go_total lower split_regex) with (t := t) (p := @None N) (skip := 0) (gap := @nil N)
    as (ps & ->); [rewrite split_regex_minw; lia|].
  simpl. eauto.
Qed.

(* the serializer never raises *)
Theorem serialize_total : forall t, exists out, serialize t = Ok out.
Proof.
  intros t. unfold serialize. destruct (split_unquoted_newlines_total t) as (lines & ->). simpl. eauto.
Qed.
Print Assumptions serialize_total.

(* ================================================================================================
   re.split loses nothing: the pieces, concatenated, are the text
   ================================================================================================ *)
Definition piece_text (p : option text) : text := match p with Some w => w | None => [] end.

(* holds for a pattern whose group 1 spans the whole match *)
Definition whole_group (lo : N -> N) (rx : re) : Prop :=
  forall x k g, match_cap lo rx x = Some (k, g) -> g = Some (firstn k (rest x)).

Lemma group1_whole lo r : whole_group lo (Group 1 r).
Proof.
  intros x k g. unfold match_cap. cbn [ends].
  destruct (ends lo r x []) as [|[x' c'] l]; cbn [map]; [discriminate|].
  cbn [fst snd cap_get Nat.eqb]. intros H; injection H as <- <-. reflexivity.
Qed.

Lemma re_split_go_concat lo rx : whole_group lo rx -> forall t p skip gap ps,
  skip <= length t ->
  re_split_go lo rx p skip gap t = Ok ps ->
  flat_map piece_text ps = rev gap ++ skipn skip t.
Proof.
  intros Hg. induction t as [|ch tl IH]; intros p skip gap ps Hs H; cbn [re_split_go] in H.
  - injection H as <-. simpl in Hs. replace skip with 0 by lia. simpl. rewrite !app_nil_r. reflexivity.
  - destruct skip as [|k].
    + destruct (match_cap lo rx (mkSt p (ch :: tl))) as [[n g]|] eqn:E.
      * destruct n as [|n']; [discriminate|].
        destruct (re_split_go lo rx (Some ch) n' [] tl) as [r|] eqn:Er; [|discriminate].
        simpl in H. injection H as <-.
        pose proof (match_cap_width _ _ _ _ _ E) as [_ Hle]. cbn [rest] in Hle. simpl in Hle.
        apply Hg in E. subst g. cbn [rest] in *.
        apply IH in Er; [|lia]. cbn [flat_map piece_text]. rewrite Er. simpl.
        rewrite firstn_skipn. reflexivity.
      * apply IH in H; [|simpl; lia]. rewrite H. simpl. rewrite <- app_assoc. reflexivity.
    + apply IH in H; [|simpl in Hs; lia]. rewrite H. reflexivity.
Qed.

Theorem re_split_concat : forall t ps, re_split lower split_regex t = Ok ps -> flat_map piece_text ps = t.
Proof.
  intros t ps H. unfold re_split in H.
  eapply re_split_go_concat in H; [exact H | apply group1_whole | lia].
Qed.

(* ================================================================================================
   rstrip
   ================================================================================================ *)
Lemma lstrip_app_nonspace sp U x V : cmem x sp = false -> lstrip sp (U ++ x :: V) = lstrip sp U ++ x :: V.
Proof.
  intros Hx. induction U as [|u U IH]; simpl; [rewrite Hx; reflexivity|].
  destruct (cmem u sp); [exact IH | reflexivity].
Qed.

(* rstrip never reaches past a non-space character *)
Lemma rstrip_app_nonspace sp A x B : cmem x sp = false -> rstrip sp (A ++ x :: B) = A ++ x :: rstrip sp B.
Proof.
  intros Hx. unfold rstrip. rewrite rev_app_distr. cbn [rev]. rewrite <- app_assoc. cbn [app].
  rewrite lstrip_app_nonspace by exact Hx. rewrite rev_app_distr. cbn [rev].
  rewrite rev_involutive, <- app_assoc. reflexivity.
Qed.

(* ================================================================================================
   the loop of split_unquoted_newlines
   ================================================================================================ *)
Lemma sun_loop_done lo ps : forall done cur, sun_loop lo ps done cur = rev done ++ sun_loop lo ps [] cur.
Proof.
  induction ps as [|p ps IH]; intros done cur; cbn [sun_loop].
  - reflexivity.
  - destruct p as [[|a line]|]; try apply IH.
    destruct (line_match lo (a :: line)); [|apply IH].
    rewrite (IH (cur :: done)), (IH [cur]). cbn [rev app]. rewrite <- app_assoc. reflexivity.
Qed.

Lemma sun_loop_nonempty lo ps done cur : sun_loop lo ps done cur <> [].
Proof.
  revert done cur; induction ps as [|p ps IH]; intros done cur; cbn [sun_loop].
  - cbn [rev]. intros H. apply app_eq_nil in H. destruct H; discriminate.
  - destruct p as [[|a line]|]; try apply IH. destruct (line_match lo (a :: line)); apply IH.
Qed.

Lemma sun_loop_cur lo ps : forall cur,
  sun_loop lo ps [] cur = match sun_loop lo ps [] [] with f :: tl => (cur ++ f) :: tl | [] => [cur] end.
Proof.
  induction ps as [|p ps IH]; intros cur; cbn [sun_loop].
  - cbn [rev app]. rewrite app_nil_r. reflexivity.
  - destruct p as [[|a line]|]; try apply IH.
    destruct (line_match lo (a :: line)).
    + rewrite (sun_loop_done lo ps [cur]), (sun_loop_done lo ps [[]]). cbn [rev app].
      rewrite app_nil_r. reflexivity.
    + rewrite (IH (cur ++ a :: line)), (IH ([] ++ a :: line)). cbn [app].
      destruct (sun_loop lo ps [] []) as [|f tl] eqn:E; [exfalso; exact (sun_loop_nonempty _ _ _ _ E)|].
      rewrite <- app_assoc. reflexivity.
Qed.

(* state (done, cur) after a prefix of the pieces *)
Fixpoint sun_state (lo : N -> N) (ps : list (option text)) (done : list text) (cur : text)
  : list text * text :=
  match ps with
  | [] => (done, cur)
  | None :: ps' => sun_state lo ps' done cur
  | Some [] :: ps' => sun_state lo ps' done cur
  | Some line :: ps' =>
      if line_match lo line then sun_state lo ps' (cur :: done) [] else sun_state lo ps' done (cur ++ line)
  end.

Lemma sun_loop_app lo ps1 ps2 : forall done cur,
  sun_loop lo (ps1 ++ ps2) done cur =
  sun_loop lo ps2 (fst (sun_state lo ps1 done cur)) (snd (sun_state lo ps1 done cur)).
Proof.
  induction ps1 as [|p ps1 IH]; intros done cur; cbn [app sun_loop sun_state]; [reflexivity|].
  destruct p as [[|a line]|]; try apply IH. destruct (line_match lo (a :: line)); apply IH.
Qed.

Lemma sun_state_loop lo ps done cur :
  sun_loop lo ps done cur = rev (snd (sun_state lo ps done cur) :: fst (sun_state lo ps done cur)).
Proof.
  revert done cur; induction ps as [|p ps IH]; intros done cur; cbn [sun_loop sun_state]; [reflexivity|].
  destruct p as [[|a line]|]; try apply IH. destruct (line_match lo (a :: line)); apply IH.
Qed.

(* ================================================================================================
   quoted segments survive unchanged
   ================================================================================================ *)
(* a piece '...' or "..." *)
Definition quoted_piece (q : text) : Prop :=
  exists c body, q = c :: body ++ [c] /\ (c = 34%N \/ c = 39%N).

Lemma quoted_no_line_match q : quoted_piece q -> exists a r, q = a :: r /\ line_match lower q = false.
Proof.
  intros (c & body & -> & [->| ->]); eexists _, _; split; try reflexivity; vm_compute; reflexivity.
Qed.

Lemma join_map_app sep (f : text -> text) a b : join sep (map f (a ++ b)) = join sep (map f a ++ map f b).
Proof. rewrite map_app. reflexivity. Qed.

(* If '...' / "..." is one of the pieces SPLIT_REGEX.split produces, it appears verbatim in the
   output, together with everything before it on its line; only what FOLLOWS it on the line is
   subject to rstrip.  (init1/last1: the lines the pieces before q make; first2/tail2: those after.) *)
Theorem serialize_keeps_quoted : forall t ps1 q ps2,
  re_split lower split_regex t = Ok (ps1 ++ Some q :: ps2) -> quoted_piece q ->
  exists init1 last1 first2 tail2,
    sun_loop lower ps1 [] [] = init1 ++ [last1] /\
    sun_loop lower ps2 [] [] = first2 :: tail2 /\
    serialize t = Ok (join s_lf (map (rstrip space_set) init1
                                 ++ [last1 ++ q ++ rstrip space_set first2]
                                 ++ map (rstrip space_set) tail2)).
Proof.
  intros t ps1 q ps2 Hsplit Hq.
  destruct (quoted_no_line_match q Hq) as (a & r & Eq & Hlm).
  destruct (sun_state lower ps1 [] []) as [d1 c1] eqn:Est.
  destruct (sun_loop lower ps2 [] []) as [|first2 tail2] eqn:E2;
    [exfalso; exact (sun_loop_nonempty _ _ _ _ E2)|].
  exists (rev d1), c1, first2, tail2. split; [|split; [reflexivity|]].
  - rewrite sun_state_loop, Est. reflexivity.
  - unfold serialize, split_unquoted_newlines. rewrite Hsplit. cbn [bind]. f_equal. f_equal.
    rewrite sun_loop_app, Est. cbn [fst snd]. rewrite Eq. cbn [sun_loop]. rewrite <- Eq, Hlm.
    rewrite sun_loop_done, sun_loop_cur, E2.
    rewrite !map_app. cbn [map]. f_equal. f_equal. f_equal.
    destruct Hq as (c & body & -> & Hc).
    assert (Hns : cmem c space_set = false) by (destruct Hc as [->| ->]; vm_compute; reflexivity).
    replace ((c1 ++ c :: body ++ [c]) ++ first2) with ((c1 ++ c :: body) ++ c :: first2).
    2:{ rewrite <- !app_assoc. cbn [app]. rewrite <- app_assoc. reflexivity. }
    rewrite rstrip_app_nonspace by exact Hns.
    rewrite <- !app_assoc. cbn [app]. rewrite <- app_assoc. reflexivity.
Qed.
Print Assumptions serialize_keeps_quoted.
