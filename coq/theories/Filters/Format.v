(* sqlparse.format(sql, **options) for the option sets of this slice, over the current tables.
   Definitions only.

     stack = FilterStack(); build_filter_stack(stack, options); stack.postprocess.append(SerializerUnicode())
     return ''.join(stack.run(sql, encoding))

   FilterStack.run is a generator pipeline: each statement the splitter yields is grouped (only when
   an option enabled grouping), passed through the statement filters, then through the serializer,
   before the next statement is produced; the first exception aborts the whole call. *)
From SqlModel Require Import Base PyStr Re Lexer SplitDefs Splitter Node Passes.
From SqlModel.Filters Require Import StripWs Spaces Serializer.
From SqlModel.Inst Require Import Cur.

(* one statement: group?, statement filters, serializer on str(stmt) *)
Definition run_stmt (grouping : bool) (filters : list (node -> res node)) (s : list tok) : res text :=
  n0 <- (if grouping then group (statement_of s) else Ok (statement_of s)) ;;
  n1 <- run_passes filters n0 ;;
  serialize (text_of n1).

Definition format_with (grouping : bool) (filters : list (node -> res node)) (t : text) : res text :=
  stmts <- cur_split_stream t ;;
  outs <- mapM (run_stmt grouping filters) stmts ;;
  Ok (concat outs).

Definition format_plain : text -> res text := format_with false [].
Definition format_sw : text -> res text := format_with true [stripws].
Definition format_sp : text -> res text := format_with true [spaces].
(* both options: build_filter_stack appends SpacesAroundOperatorsFilter before StripWhitespaceFilter *)
Definition format_sp_sw : text -> res text := format_with true [spaces; stripws].

(* the intermediate observables of the correspondence *)
Definition parse_then (f : node -> res node) (t : text) : res (list node) :=
  stmts <- cur_split_stream t ;; mapM (fun s => n <- group (statement_of s) ;; f n) stmts.
Definition serialize_parsed (t : text) : res (list text) :=
  stmts <- cur_split_stream t ;; mapM (fun s => n <- group (statement_of s) ;; serialize (text_of n)) stmts.
(* sqlparse.split(sql, strip_semicolon=True) before the final str(stmt).strip(): no grouping *)
Definition split_strip_semicolon (t : text) : res (list node) :=
  stmts <- cur_split_stream t ;; mapM (fun s => strip_trailing_semicolon (statement_of s)) stmts.
