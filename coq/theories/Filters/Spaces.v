(* Model of sqlparse.filters.others.SpacesAroundOperatorsFilter.  Definitions only
   (proofs: SpacesFacts.v).

     ttypes = (T.Operator, T.Comparison)
     tidx, token = tlist.token_next_by(t=ttypes)
     while token:
         nidx, next_ = tlist.token_next(tidx, skip_ws=False)
         if next_ and next_.ttype != T.Whitespace:
             tlist.insert_after(tidx, sql.Token(T.Whitespace, ' '))
         pidx, prev_ = tlist.token_prev(tidx, skip_ws=False)
         if prev_ and prev_.ttype != T.Whitespace:
             tlist.insert_before(tidx, sql.Token(T.Whitespace, ' '))
             tidx += 1
         tidx, token = tlist.token_next_by(t=ttypes, idx=tidx)

   * `t=ttypes` is a TUPLE: utils.imt tests `token.ttype in t`, i.e. equality with T.Operator or with
     T.Operator.Comparison (no sub-types, no Wildcard)                       -> TMany
   * `next_.ttype != T.Whitespace` is an inequality of token types: a Newline (Text.Whitespace.Newline)
     or a group (ttype None) counts as "not whitespace"
   * insert_after(where, token) has skip_ws=True by default: the blank goes before the next
     NON-WHITESPACE token after the operator (appended when there is none), not right after it
   * a Token object is always truthy (`while token`, `if next_`). *)
From SqlModel Require Import Base PyStr Node.

Definition sp_token : node := Leaf T_Whitespace [32]%N.
Definition sp_ttypes : tspec := TMany [T_Operator; T_Comparison].

(* TokenList.insert_after(where, token)  (skip_ws=True) *)
Definition insert_after (where_ : nat) (tk : node) (l : list node) : list node :=
  match token_next true false where_ l with
  | None => l ++ [tk]
  | Some (nidx, _) => insert_at nidx tk l
  end.

(* TokenList.insert_before(where, token) with an integer position *)
Definition insert_before (where_ : nat) (tk : node) (l : list node) : list node :=
  insert_at where_ tk l.

(* one iteration of the loop body for the operator found at tidx: new list and new tidx *)
Definition sp_step (tidx : nat) (l : list node) : list node * nat :=
  let l1 :=
    match token_next false false tidx l with
    | Some (_, next_) => if negb (is_ws next_) then insert_after tidx sp_token l else l
    | None => l
    end in
  match token_prev false false tidx l1 with
  | Some (_, prev_) =>
      if negb (is_ws prev_) then (insert_before tidx sp_token l1, S tidx) else (l1, tidx)
  | None => (l1, tidx)
  end.

(* the while loop; [start] = index the next token_next_by search starts from (idx + 1).
   The fuel bounds the number of iterations (one per operator token); running out is [Stuck]
   (shown unreachable for fuel = S (length l) in SpacesFacts.v). *)
Fixpoint sp_loop (fuel : nat) (start : nat) (l : list node) : res (list node) :=
  match fuel with
  | O => Err Stuck
  | S fuel' =>
      match next_by_from [] [] sp_ttypes start l with
      | None => Ok l
      | Some (tidx, _) =>
          let '(l', tidx') := sp_step tidx l in
          sp_loop fuel' (S tidx') l'
      end
  end.

Definition sp_list (l : list node) : res (list node) := sp_loop (S (length l)) 0 l.

(* process(stmt): children first, then the list itself *)
Fixpoint sp_process (n : node) : res node :=
  match n with
  | Leaf _ _ => Ok n
  | Grp c v kids =>
      kids1 <- mapM (fun k => if is_group k then sp_process k else Ok k) kids ;;
      kids2 <- sp_list kids1 ;;
      Ok (Grp c v kids2)
  end.

Definition spaces (stmt : node) : res node :=
  match stmt with
  | Leaf _ _ => Err AttributeError
  | Grp _ _ _ => sp_process stmt
  end.

(* ---- the same computation as a single left-to-right pass (used for the proofs; shown equal to
   sp_list in SpacesFacts.v).
   [prev_ok]: there is no previous token or its ttype is exactly Whitespace.
   [pending]: a blank still has to be placed before the next non-whitespace token (insert_after
   skipped over whitespace-typed tokens, e.g. a Newline). *)
Definition is_sp_op (n : node) : bool := tt_among n [T_Operator; T_Comparison].

Fixpoint sp_pass (prev_ok pending : bool) (l : list node) : list node :=
  match l with
  | [] => if pending then [sp_token] else []
  | t :: r =>
      (* the pending blank is placed before the first non-whitespace token *)
      let place := pending && negb (is_ws t) in
      let prev_ok' := if place then true else prev_ok in
      let pending' := if place then false else pending in
      (if place then [sp_token] else []) ++
      (if is_sp_op t
       then
         let after := match r with x :: _ => negb (is_ws x) | [] => false end in
         (if prev_ok' then [t] else [sp_token; t]) ++ sp_pass false after r
       else t :: sp_pass (is_ws t) pending' r)
  end.

Definition sp_fun (l : list node) : list node := sp_pass true false l.

(* ---- the normal form ------------------------------------------------------------------------ *)
(* every Operator / Comparison child is first in the list or preceded by a token of type exactly
   Whitespace, and is last in the list or followed by a whitespace-typed token (Whitespace or one of
   its sub-types, e.g. Newline) *)
Fixpoint ops_ok (prev_ok : bool) (l : list node) : bool :=
  match l with
  | [] => true
  | t :: r =>
      (if is_sp_op t then prev_ok && match r with [] => true | x :: _ => is_ws x end else true)
      && ops_ok (is_ws t) r
  end.

Fixpoint sp_nf (n : node) : bool :=
  match n with
  | Leaf _ _ => true
  | Grp _ _ kids => ops_ok true kids && forallb sp_nf kids
  end.

(* the naive reading: the follower is of type exactly Whitespace *)
Fixpoint ops_ok_strict (prev_ok : bool) (l : list node) : bool :=
  match l with
  | [] => true
  | t :: r =>
      (if is_sp_op t then prev_ok && match r with [] => true | x :: _ => is_ws x end else true)
      && ops_ok_strict (is_ws t) r
  end.
Fixpoint sp_nf_strict (n : node) : bool :=
  match n with
  | Leaf _ _ => true
  | Grp _ _ kids => ops_ok_strict true kids && forallb sp_nf_strict kids
  end.

(* the flattened reading (what C10 says about the text): every Operator / Comparison LEAF has a
   whitespace-typed leaf on both sides, or is the first / last leaf of the statement *)
Fixpoint flat_ops_ok (prev_ws : bool) (l : list (list tcomp * list N)) : bool :=
  match l with
  | [] => true
  | (ty, v) :: r =>
      (if existsb (ttype_eqb ty) [T_Operator; T_Comparison]
       then prev_ws && match r with [] => true | (ty', _) :: _ => tin ty' T_Whitespace end
       else true)
      && flat_ops_ok (tin ty T_Whitespace) r
  end.
