(* A direct (regex-free) description of what SPLIT_REGEX.split / split_unquoted_newlines compute.
   Definitions only; SerializerSpecFacts.v proves that the regex model (Serializer.v over
   Gen/SplitRx.v) computes exactly this. *)
From SqlModel Require Import Base PyStr Re.
From SqlModel.Filters Require Import Serializer.

Section Scan.
(* the character classes of the pattern: CR, LF, "neither CR, LF nor a quote", and per quote kind:
   the quote, "neither this quote nor a backslash"; the backslash and the dot *)
Variables cr lf pl bs any : cset.

(* length of the longest prefix inside a class *)
Fixpoint run (s : cset) (t : text) : nat :=
  match t with
  | c :: r => if cmem c s then S (run s r) else 0
  | [] => 0
  end.

(* after an opening quote: characters up to and including the closing quote.  A backslash takes the
   next character with it unless that character is a line feed (`.` without DOTALL) or missing; a
   string that cannot be closed is not a string at all (None). *)
Fixpoint qscan (q nq : cset) (t : text) : option nat :=
  match t with
  | [] => None
  | c :: r =>
      if cmem c nq then option_map S (qscan q nq r)
      else if cmem c bs then
        match r with
        | d :: r' => if cmem d any then option_map (fun k => S (S k)) (qscan q nq r') else None
        | [] => None
        end
      else if cmem c q then Some 1
      else None
  end.

Variables dq dnq sq snq : cset.

(* the match of SPLIT_REGEX at the start of t: its length *)
Definition scan1 (t : text) : option nat :=
  match t with
  | [] => None
  | a :: r =>
      if cmem a cr then Some (match r with b :: _ => if cmem b lf then 2 else 1 | [] => 1 end)
      else if cmem a lf then Some 1
      else if cmem a pl then Some (S (run pl r))
      else if cmem a dq then option_map S (qscan dq dnq r)
      else if cmem a sq then option_map S (qscan sq snq r)
      else None
  end.

(* SPLIT_REGEX.split(t): [gap; match; gap; ...; gap] -- the gaps hold the quote characters that do
   not open a string *)
Fixpoint spec_split_go (skip : nat) (gap_rev : text) (t : text) : list (option text) :=
  match t with
  | [] => [Some (rev gap_rev)]
  | ch :: tl =>
      match skip with
      | S k => spec_split_go k gap_rev tl
      | O =>
          match scan1 t with
          | Some (S n') => Some (rev gap_rev) :: Some (firstn (S n') t) :: spec_split_go n' [] tl
          | _ => spec_split_go 0 (ch :: gap_rev) tl
          end
      end
  end.
Definition spec_split (t : text) : list (option text) := spec_split_go 0 [] t.

(* a piece is a line end iff it starts with CR or LF *)
Definition is_nl_piece (w : text) : bool :=
  match w with a :: _ => cmem a cr || cmem a lf | [] => false end.

Fixpoint spec_lines (pieces : list (option text)) (done : list text) (cur : text) : list text :=
  match pieces with
  | [] => rev (cur :: done)
  | None :: ps | Some [] :: ps => spec_lines ps done cur
  | Some w :: ps => if is_nl_piece w then spec_lines ps (cur :: done) [] else spec_lines ps done (cur ++ w)
  end.

Definition spec_serialize (sp : cset) (t : text) : text :=
  join s_lf (map (rstrip sp) (spec_lines (spec_split t) [] [])).
End Scan.
