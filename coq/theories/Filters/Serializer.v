(* Model of utils.split_unquoted_newlines and filters.others.SerializerUnicode, over the regex ASTs
   regenerated from utils.SPLIT_REGEX / utils.LINE_MATCH (Gen/SplitRx.v).  Definitions only
   (proofs: SerializerFacts.v).

     def split_unquoted_newlines(stmt):
         text = str(stmt)
         lines = SPLIT_REGEX.split(text)
         outputlines = ['']
         for line in lines:
             if not line: continue
             elif LINE_MATCH.match(line): outputlines.append('')
             else: outputlines[-1] += line
         return outputlines

     class SerializerUnicode:
         def process(stmt):
             lines = split_unquoted_newlines(stmt)
             return '\n'.join(line.rstrip() for line in lines)                                  *)
From SqlModel Require Import Base PyStr Re.
From SqlModel.Gen Require Import CaseTabs SplitRx.

Section Split.
Variable lower : N -> N.
Variable rx : re.

(* pattern.match at the current position: characters consumed and group 1 (None if the group did
   not take part) *)
Definition match_cap (x : st) : option (nat * option text) :=
  match ends lower rx x [] with
  | [] => None
  | (x', c) :: _ => Some (length (rest x) - length (rest x'), cap_get 1 c)
  end.

(* re.split(text) for a pattern with one capturing group and no empty match:
     [gap0; group1; gap1; group1'; ...; gapN]
   pattern.search tries every position from the end of the previous match on; the characters it
   steps over form the gap.  [skip]: characters of the current match still to be passed;
   [gap_rev]: the gap collected so far, reversed.  An empty match (not possible for a pattern of
   minimum width >= 1) is outside the model: [Stuck]. *)
Fixpoint re_split_go (p : option N) (skip : nat) (gap_rev : text) (t : text) : res (list (option text)) :=
  match t with
  | [] => Ok [Some (rev gap_rev)]
  | ch :: tl =>
      match skip with
      | S k => re_split_go (Some ch) k gap_rev tl
      | O =>
          match match_cap (mkSt p t) with
          | Some (O, _) => Err Stuck
          | Some (S n', g) =>
              r <- re_split_go (Some ch) n' [] tl ;;
              Ok (Some (rev gap_rev) :: g :: r)
          | None => re_split_go (Some ch) 0 (ch :: gap_rev) tl
          end
      end
  end.

Definition re_split (t : text) : res (list (option text)) := re_split_go None 0 [] t.
End Split.

(* LINE_MATCH.match(line) is not None *)
Definition line_match (lower : N -> N) (line : text) : bool :=
  match rmatch lower line_match_regex (mkSt None line) with Some _ => true | None => false end.

(* the loop over the pieces; outputlines = rev done ++ [cur] *)
Fixpoint sun_loop (lower : N -> N) (pieces : list (option text)) (done : list text) (cur : text)
  : list text :=
  match pieces with
  | [] => rev (cur :: done)
  | None :: ps => sun_loop lower ps done cur                       (* `not None` *)
  | Some [] :: ps => sun_loop lower ps done cur                    (* `not ''` *)
  | Some line :: ps =>
      if line_match lower line then sun_loop lower ps (cur :: done) []
      else sun_loop lower ps done (cur ++ line)
  end.

Definition split_unquoted_newlines (t : text) : res (list text) :=
  pieces <- re_split lower split_regex t ;; Ok (sun_loop lower pieces [] []).

(* sep.join(lines) *)
Fixpoint join (sep : text) (lines : list text) : text :=
  match lines with
  | [] => []
  | [l] => l
  | l :: ls => l ++ sep ++ join sep ls
  end.

Definition s_lf : text := [10]%N.

(* SerializerUnicode.process on the statement's current text *)
Definition serialize (t : text) : res text :=
  lines <- split_unquoted_newlines t ;; Ok (join s_lf (map (rstrip space_set) lines)).
