(* Python option VALUES, option dictionaries and the semantics of the handful of Python operations
   that sqlparse/formatter.py applies to them (validate_options / build_filter_stack) and that
   sqlparse.format applies before the first token is lexed.

   This file is hand-written and contains definitions only; the translation of the two functions
   is regenerated on every run into Gen/OptTab.v (tools/regen/gen_options.py); the theorems are in
   Filters/OptFacts.v. *)
From Coq Require Import ZArith.
From SqlModel Require Import Base PyStr.
Local Open Scope Z_scope.

(* ---- values ------------------------------------------------------------------------------ *)
(* What a caller may pass as the value of a keyword argument of sqlparse.format.
   Restrictions (stated, not hidden):
   - floats are abstracted to what int(), ==, <, <=, bool() and repr() can observe of them;
   - POther stands for any object that is none of the above, whose __eq__ with None/bool/int/str
     constants is False (default identity equality: list, tuple, dict, set, object(), ...), which has no
     __int__/__index__/__trunc__ (int() raises TypeError), whose repr() does not raise; its truth
     value is the parameter (`[]` is falsy, `object()` truthy).  bytes/bytearray (int(b'3') = 3),
     Decimal/Fraction/numpy scalars and objects with user-defined __eq__/__int__/__repr__ are
     outside the type. *)
Inductive pval :=
| PNone
| PBool (b : bool)
| PInt (z : Z)
| PFloatInt (z : Z)        (* a finite float equal to the integer z:  1.0, 2.0, -0.0 (z = 0) *)
| PFloatFrac (fl : Z)      (* a finite non-integral float x with floor(x) = fl:  2.5 is PFloatFrac 2 *)
| PFloatInf (neg : bool)   (* float('inf') / float('-inf') *)
| PFloatNan                (* float('nan') *)
| PStr (s : text)
| POther (truthy : bool).

(* option dictionaries: association lists, the first binding of a key is the live one *)
Definition opts := list (text * pval).

(* ---- exceptions ---------------------------------------------------------------------------- *)
(* Base.exn has no OverflowError (int(float('inf'))) and no KeyError (options['k']); they are added
   here by wrapping, so that "only SQLParseError escapes" is a statement that can be false. *)
Inductive pyexn := Exn (e : exn) | OverflowError | KeyError.

Inductive ores (A : Type) := OOk (a : A) | OErr (e : pyexn).
Arguments OOk {A} a.
Arguments OErr {A} e.

Definition obind {A B} (m : ores A) (f : A -> ores B) : ores B :=
  match m with OOk a => f a | OErr e => OErr e end.

Notation "x <~ m ;; k" := (obind m (fun x => k)) (at level 61, m at next level, right associativity).
Notation "' p <~ m ;; k" := (obind m (fun p => k))
  (at level 61, p pattern, m at next level, right associativity).

Definition olift {A} (m : res A) : ores A :=
  match m with Ok a => OOk a | Err e => OErr (Exn e) end.

Notation SQLErr := (OErr (Exn SQLParseError)).

(* `except (A, B):` -- the classes a handler may name, and the subclass test *)
Inductive hcls := HValueError | HTypeError | HOverflowError | HArithmeticError | HKeyError
                | HLookupError | HIndexError | HAttributeError | HException.

Definition isa (e : pyexn) (h : hcls) : bool :=
  match h, e with
  | HException, _ => true
  | HValueError, Exn ValueError | HValueError, Exn UnicodeDecodeError => true
  | HTypeError, Exn TypeError => true
  | HOverflowError, OverflowError | HArithmeticError, OverflowError => true
  | HKeyError, KeyError => true
  | HLookupError, KeyError | HLookupError, Exn IndexError | HLookupError, Exn LookupError => true
  | HIndexError, Exn IndexError => true
  | HAttributeError, Exn AttributeError => true
  | _, _ => false
  end.

(* try: m  except hs: handler *)
Definition otry {A} (m : ores A) (hs : list hcls) (handler : ores A) : ores A :=
  match m with
  | OOk a => OOk a
  | OErr e => if existsb (isa e) hs then handler else OErr e
  end.

(* ---- strings ------------------------------------------------------------------------------- *)
(* the option names and string values the specification below mentions, as code points
   (OptFacts.v checks each against its string literal; Coq's `string` type is kept out of the
   extracted code because its constructor `String` would clash with Base.tcomp's) *)
Definition o_capitalize : text := [99; 97; 112; 105; 116; 97; 108; 105; 122; 101]%N.  (* "capitalize" *)
Definition o_comma_first : text := [99; 111; 109; 109; 97; 95; 102; 105; 114; 115; 116]%N.  (* "comma_first" *)
Definition o_compact : text := [99; 111; 109; 112; 97; 99; 116]%N.  (* "compact" *)
Definition o_identifier_case : text := [105; 100; 101; 110; 116; 105; 102; 105; 101; 114; 95; 99; 97; 115; 101]%N.  (* "identifier_case" *)
Definition o_indent_after_first : text := [105; 110; 100; 101; 110; 116; 95; 97; 102; 116; 101; 114; 95; 102; 105; 114; 115; 116]%N.  (* "indent_after_first" *)
Definition o_indent_char : text := [105; 110; 100; 101; 110; 116; 95; 99; 104; 97; 114]%N.  (* "indent_char" *)
Definition o_indent_columns : text := [105; 110; 100; 101; 110; 116; 95; 99; 111; 108; 117; 109; 110; 115]%N.  (* "indent_columns" *)
Definition o_indent_tabs : text := [105; 110; 100; 101; 110; 116; 95; 116; 97; 98; 115]%N.  (* "indent_tabs" *)
Definition o_indent_width : text := [105; 110; 100; 101; 110; 116; 95; 119; 105; 100; 116; 104]%N.  (* "indent_width" *)
Definition o_keyword_case : text := [107; 101; 121; 119; 111; 114; 100; 95; 99; 97; 115; 101]%N.  (* "keyword_case" *)
Definition o_lower : text := [108; 111; 119; 101; 114]%N.  (* "lower" *)
Definition o_output_format : text := [111; 117; 116; 112; 117; 116; 95; 102; 111; 114; 109; 97; 116]%N.  (* "output_format" *)
Definition o_php : text := [112; 104; 112]%N.  (* "php" *)
Definition o_python : text := [112; 121; 116; 104; 111; 110]%N.  (* "python" *)
Definition o_reindent : text := [114; 101; 105; 110; 100; 101; 110; 116]%N.  (* "reindent" *)
Definition o_reindent_aligned : text := [114; 101; 105; 110; 100; 101; 110; 116; 95; 97; 108; 105; 103; 110; 101; 100]%N.  (* "reindent_aligned" *)
Definition o_right_margin : text := [114; 105; 103; 104; 116; 95; 109; 97; 114; 103; 105; 110]%N.  (* "right_margin" *)
Definition o_sql : text := [115; 113; 108]%N.  (* "sql" *)
Definition o_strip_comments : text := [115; 116; 114; 105; 112; 95; 99; 111; 109; 109; 101; 110; 116; 115]%N.  (* "strip_comments" *)
Definition o_strip_whitespace : text := [115; 116; 114; 105; 112; 95; 119; 104; 105; 116; 101; 115; 112; 97; 99; 101]%N.  (* "strip_whitespace" *)
Definition o_truncate_char : text := [116; 114; 117; 110; 99; 97; 116; 101; 95; 99; 104; 97; 114]%N.  (* "truncate_char" *)
Definition o_truncate_strings : text := [116; 114; 117; 110; 99; 97; 116; 101; 95; 115; 116; 114; 105; 110; 103; 115]%N.  (* "truncate_strings" *)
Definition o_upper : text := [117; 112; 112; 101; 114]%N.  (* "upper" *)
Definition o_use_space_around_operators : text := [117; 115; 101; 95; 115; 112; 97; 99; 101; 95; 97; 114; 111; 117; 110; 100; 95; 111; 112; 101; 114; 97; 116; 111; 114; 115]%N.  (* "use_space_around_operators" *)
Definition o_wrap_after : text := [119; 114; 97; 112; 95; 97; 102; 116; 101; 114]%N.  (* "wrap_after" *)

(* ---- dictionaries -------------------------------------------------------------------------- *)
Fixpoint ofind (o : opts) (k : text) : option pval :=
  match o with
  | [] => None
  | (k', v) :: r => if text_eqb k' k then Some v else ofind r k
  end.

(* options.get(k, d) *)
Definition oget (o : opts) (k : text) (d : pval) : pval :=
  match ofind o k with Some v => v | None => d end.

(* options[k] *)
Definition oidx (o : opts) (k : text) : ores pval :=
  match ofind o k with Some v => OOk v | None => OErr KeyError end.

(* options[k] = v : an existing key keeps its position, a new key goes last (dict order) *)
Fixpoint oset (o : opts) (k : text) (v : pval) : opts :=
  match o with
  | [] => [(k, v)]
  | (k', v') :: r => if text_eqb k' k then (k, v) :: r else (k', v') :: oset r k v
  end.

(* ---- Python operators on values ------------------------------------------------------------ *)
(* the integer a value is numerically equal to, if any *)
Definition num_of (v : pval) : option Z :=
  match v with
  | PBool b => Some (if b then 1 else 0)
  | PInt z => Some z
  | PFloatInt z => Some z
  | _ => None
  end.

(* a == b, where b is a constant of the source (None, bool, int, str).  1 == True, 0 == False,
   1.0 == True; nan equals nothing; POther equals no constant. *)
Definition py_eq (a b : pval) : bool :=
  match a, b with
  | PNone, PNone => true
  | PStr s, PStr t => text_eqb s t
  | _, _ =>
      match num_of a, num_of b with
      | Some x, Some y => Z.eqb x y
      | _, _ => false
      end
  end.

(* a in [c1, ..., cn] : list membership uses == *)
Definition py_in (a : pval) (l : list pval) : bool := existsb (py_eq a) l.

Definition is_none (v : pval) : bool := match v with PNone => true | _ => false end.
(* isinstance(v, str) *)
Definition is_str (v : pval) : bool := match v with PStr _ => true | _ => false end.

(* bool(v) *)
Definition py_truthy (v : pval) : bool :=
  match v with
  | PNone => false
  | PBool b => b
  | PInt z | PFloatInt z => negb (Z.eqb z 0)
  | PFloatFrac _ | PFloatInf _ | PFloatNan => true
  | PStr s => match s with [] => false | _ => true end
  | POther t => t
  end.

(* v <= c, v < c for an int constant c: TypeError unless v is a number *)
Definition py_le (v : pval) (c : Z) : ores bool :=
  match v with
  | PBool _ | PInt _ | PFloatInt _ =>
      match num_of v with Some z => OOk (Z.leb z c) | None => OErr (Exn Stuck) end
  | PFloatFrac fl => OOk (Z.ltb fl c)            (* fl < x < fl+1 :  x <= c  iff  fl < c *)
  | PFloatInf neg => OOk neg
  | PFloatNan => OOk false
  | PNone | PStr _ | POther _ => OErr (Exn TypeError)
  end.

Definition py_lt (v : pval) (c : Z) : ores bool :=
  match v with
  | PBool _ | PInt _ | PFloatInt _ =>
      match num_of v with Some z => OOk (Z.ltb z c) | None => OErr (Exn Stuck) end
  | PFloatFrac fl => OOk (Z.ltb fl c)            (* x < c  iff  fl+1 <= c  iff  fl < c *)
  | PFloatInf neg => OOk neg
  | PFloatNan => OOk false
  | PNone | PStr _ | POther _ => OErr (Exn TypeError)
  end.

Definition py_ge (v : pval) (c : Z) : ores bool :=
  match v with
  | PFloatNan => OOk false
  | _ => b <~ py_lt v c ;; OOk (negb b)
  end.

Definition py_gt (v : pval) (c : Z) : ores bool :=
  match v with
  | PFloatNan => OOk false
  | _ => b <~ py_le v c ;; OOk (negb b)
  end.

(* ---- int(str) ------------------------------------------------------------------------------ *)
(* The three tables are regenerated from the running interpreter (Gen/OptTab.v):
   ic_space  : characters int() skips at both ends (ASCII \t\n\v\f\r and space, and the non-ASCII
               str.isspace() characters; NOT \x1c..\x1f),
   ic_digit  : every character that int() reads as a decimal digit -> its value (all of Unicode Nd),
   ic_maxdig : sys.get_int_max_str_digits() (0 = no limit). *)
Record int_cfg := { ic_space : cset; ic_digit : umap; ic_maxdig : Z }.

Definition digit_of (cfg : int_cfg) (c : N) : option Z :=
  match ufind c (ic_digit cfg) with
  | Some (d :: _) => if N.leb d 9 then Some (Z.of_N d) else None
  | _ => None
  end.

Inductive scan_prev := SStart | SDigit | SUnderscore.

(* digits with single underscores between them; returns value, number of digits, unread rest *)
Fixpoint scan_digits (cfg : int_cfg) (s : text) (acc : Z) (n : Z) (prev : scan_prev)
  : option (Z * Z * text) :=
  match s with
  | [] => match prev with SDigit => Some (acc, n, []) | _ => None end
  | c :: r =>
      match digit_of cfg c with
      | Some d => scan_digits cfg r (10 * acc + d) (n + 1) SDigit
      | None =>
          if N.eqb c 95 (* _ *) then
            match prev with SDigit => scan_digits cfg r acc n SUnderscore | _ => None end
          else
            match prev with SDigit => Some (acc, n, s) | _ => None end
      end
  end.

Definition int_of_str (cfg : int_cfg) (s : text) : option Z :=
  let s1 := lstrip (ic_space cfg) s in
  let '(neg, s2) := match s1 with
                    | 43%N :: r => (false, r)
                    | 45%N :: r => (true, r)
                    | _ => (false, s1)
                    end in
  match scan_digits cfg s2 0 0 SStart with
  | Some (z, n, rest) =>
      if all_space (ic_space cfg) rest && (Z.leb (ic_maxdig cfg) 0 || Z.leb n (ic_maxdig cfg))
      then Some (if neg then - z else z) else None
  | None => None
  end.

(* int(v) *)
Definition py_int (cfg : int_cfg) (v : pval) : ores pval :=
  match v with
  | PNone => OErr (Exn TypeError)
  | PBool b => OOk (PInt (if b then 1 else 0))
  | PInt z => OOk (PInt z)
  | PFloatInt z => OOk (PInt z)
  | PFloatFrac fl => OOk (PInt (if Z.ltb fl 0 then fl + 1 else fl))   (* truncation toward zero *)
  | PFloatInf _ => OErr OverflowError
  | PFloatNan => OErr (Exn ValueError)
  | PStr s => match int_of_str cfg s with Some z => OOk (PInt z) | None => OErr (Exn ValueError) end
  | POther _ => OErr (Exn TypeError)
  end.

(* repr(v) / str(v) of an int with more than ic_maxdig digits raises ValueError *)
(* huge z  <->  0 < maxdig /\ 10^maxdig <= |z|   (OptFacts.huge_spec); the bit-length guards
   (8^n <= 10^n < 16^n) only keep the extracted code from computing 10^maxdig for ordinary values *)
Definition huge (cfg : int_cfg) (z : Z) : bool :=
  let lim := ic_maxdig cfg in
  if Z.ltb 0 lim then
    let l := Z.log2 (Z.abs z) in
    if Z.ltb l (3 * lim) then false
    else if Z.leb (4 * lim) l then true
    else Z.leb (10 ^ lim) (Z.abs z)
  else false.

Definition repr_raises (cfg : int_cfg) (v : pval) : bool :=
  match v with PInt z => huge cfg z | _ => false end.

(* raise E('...{!r}...'.format(a1, ..., an)) : the message is built first *)
Definition raise_py {A} (cfg : int_cfg) (e : pyexn) (args : list pval) : ores A :=
  if existsb (repr_raises cfg) args then OErr (Exn ValueError) else OErr e.

Definition raise_sql {A} (cfg : int_cfg) (args : list pval) : ores A :=
  raise_py cfg (Exn SQLParseError) args.

(* s.lower() for a str; exact except for U+03A3 (final-sigma rule), which is not modelled *)
Definition py_lower (full_lower : umap) (v : pval) : ores pval :=
  match v with
  | PStr s => if existsb (N.eqb 931) s then OErr (Exn Stuck)
              else OOk (PStr (flat_map (fun c => match ufind c full_lower with Some l => l | None => [c] end) s))
  | _ => OErr (Exn AttributeError)
  end.

(* ---- the filter stack ---------------------------------------------------------------------- *)
(* one constructor per class of sqlparse.filters that build_filter_stack / format instantiate; the
   arguments are the constructor's parameters, in the order of its signature (`n` omitted: never passed) *)
Inductive filter_id :=
| FKeywordCase (case : pval)
| FIdentifierCase (case : pval)
| FTruncateString (width char : pval)
| FSpacesAroundOperators
| FStripComments
| FStripWhitespace
| FReindent (width char wrap_after comma_first indent_after_first indent_columns compact : pval)
| FAlignedIndent (char : pval)
| FRightMargin (width : pval)
| FOutputPHP (varname : pval)
| FOutputPython (varname : pval)
| FSerializerUnicode
| FStripTrailingSemicolon.

(* engine.FilterStack *)
Record fstack := { fs_pre : list filter_id; fs_grouping : bool; fs_stmt : list filter_id;
                   fs_post : list filter_id }.

Definition empty_stack : fstack :=
  {| fs_pre := []; fs_grouping := false; fs_stmt := []; fs_post := [] |}.

Definition st_enable_grouping (s : fstack) : fstack :=
  {| fs_pre := fs_pre s; fs_grouping := true; fs_stmt := fs_stmt s; fs_post := fs_post s |}.
Definition st_add_pre (s : fstack) (f : filter_id) : fstack :=
  {| fs_pre := fs_pre s ++ [f]; fs_grouping := fs_grouping s; fs_stmt := fs_stmt s; fs_post := fs_post s |}.
Definition st_add_stmt (s : fstack) (f : filter_id) : fstack :=
  {| fs_pre := fs_pre s; fs_grouping := fs_grouping s; fs_stmt := fs_stmt s ++ [f]; fs_post := fs_post s |}.
Definition st_add_post (s : fstack) (f : filter_id) : fstack :=
  {| fs_pre := fs_pre s; fs_grouping := fs_grouping s; fs_stmt := fs_stmt s; fs_post := fs_post s ++ [f] |}.

(* appending a variable that may hold None: only the Some case is modelled *)
Definition st_add_opt (add : fstack -> filter_id -> fstack) (s : fstack) (f : option filter_id) : ores fstack :=
  match f with Some f => OOk (add s f) | None => OErr (Exn Stuck) end.

Definition is_nonef (f : option filter_id) : bool := match f with None => true | Some _ => false end.

(* ---- what the filters rely on: the shape of a validated dictionary -------------------------- *)
Definition boolish (v : pval) : bool := py_in v [PBool true; PBool false].

Definition int_ge (n : Z) (v : pval) : bool := match v with PInt z => Z.leb n z | _ => false end.

Definition present (o : opts) (k : text) (p : pval -> bool) : bool :=
  match ofind o k with Some v => p v | None => false end.

Definition case_ok (v : pval) : bool :=
  py_in v [PNone; PStr o_upper; PStr o_lower; PStr o_capitalize].
Definition format_ok (v : pval) : bool :=
  py_in v [PNone; PStr o_sql; PStr o_python; PStr o_php].

Definition implb' (a b : bool) : bool := if a then b else true.

Definition pval_is (a b : pval) : bool :=
  match a, b with
  | PBool x, PBool y => Bool.eqb x y
  | PStr s, PStr t => text_eqb s t
  | PNone, PNone => true
  | _, _ => false
  end.

Record Valid (o : opts) : Prop := {
  v_keyword_case : case_ok (oget o o_keyword_case PNone) = true;
  v_identifier_case : case_ok (oget o o_identifier_case PNone) = true;
  v_output_format : format_ok (oget o o_output_format PNone) = true;
  v_strip_comments : boolish (oget o o_strip_comments (PBool false)) = true;
  v_space_around : boolish (oget o o_use_space_around_operators (PBool false)) = true;
  v_strip_ws : boolish (oget o o_strip_whitespace (PBool false)) = true;
  (* truncate_strings absent/None, or an int >= 2 and then truncate_char is present and a str (validated since the
     fix of C07-OPT-3 in /repo; before, ANY value passed and TruncateStringFilter raised TypeError while formatting) *)
  v_truncate : match oget o o_truncate_strings PNone with
               | PNone => true
               | PInt z => Z.leb 2 z && present o o_truncate_char is_str
               | _ => false
               end = true;
  v_indent_columns : present o o_indent_columns boolish = true;
  v_reindent : boolish (oget o o_reindent (PBool false)) = true;
  v_reindent_aligned : boolish (oget o o_reindent_aligned (PBool false)) = true;
  v_indent_after_first : present o o_indent_after_first boolish = true;
  v_indent_tabs : boolish (oget o o_indent_tabs (PBool false)) = true;
  v_indent_char : present o o_indent_char
                    (fun c => pval_is c (PStr (if py_truthy (oget o o_indent_tabs (PBool false))
                                               then [9%N] else [32%N]))) = true;
  v_indent_width : present o o_indent_width (int_ge 1) = true;
  v_wrap_after : present o o_wrap_after (int_ge 0) = true;
  v_comma_first : present o o_comma_first boolish = true;
  v_compact : present o o_compact boolish = true;
  v_right_margin : present o o_right_margin (fun v => is_none v || int_ge 10 v) = true;
  (* derived options *)
  v_columns_reindent : implb' (py_truthy (oget o o_indent_columns PNone))
                              (pval_is (oget o o_reindent PNone) (PBool true)) = true;
  v_reindent_strip : implb' (py_truthy (oget o o_reindent PNone))
                            (pval_is (oget o o_strip_whitespace PNone) (PBool true)) = true;
  v_aligned_strip : implb' (py_truthy (oget o o_reindent_aligned PNone))
                           (pval_is (oget o o_strip_whitespace PNone) (PBool true)) = true
}.

(* the same as a boolean, for the driver *)
Definition validb (o : opts) : bool :=
  case_ok (oget o o_keyword_case PNone)
  && case_ok (oget o o_identifier_case PNone)
  && format_ok (oget o o_output_format PNone)
  && boolish (oget o o_strip_comments (PBool false))
  && boolish (oget o o_use_space_around_operators (PBool false))
  && boolish (oget o o_strip_whitespace (PBool false))
  && match oget o o_truncate_strings PNone with
     | PNone => true
     | PInt z => Z.leb 2 z && present o o_truncate_char is_str
     | _ => false
     end
  && present o o_indent_columns boolish
  && boolish (oget o o_reindent (PBool false))
  && boolish (oget o o_reindent_aligned (PBool false))
  && present o o_indent_after_first boolish
  && boolish (oget o o_indent_tabs (PBool false))
  && present o o_indent_char
       (fun c => pval_is c (PStr (if py_truthy (oget o o_indent_tabs (PBool false)) then [9%N] else [32%N])))
  && present o o_indent_width (int_ge 1)
  && present o o_wrap_after (int_ge 0)
  && present o o_comma_first boolish
  && present o o_compact boolish
  && present o o_right_margin (fun v => is_none v || int_ge 10 v)
  && implb' (py_truthy (oget o o_indent_columns PNone)) (pval_is (oget o o_reindent PNone) (PBool true))
  && implb' (py_truthy (oget o o_reindent PNone)) (pval_is (oget o o_strip_whitespace PNone) (PBool true))
  && implb' (py_truthy (oget o o_reindent_aligned PNone)) (pval_is (oget o o_strip_whitespace PNone) (PBool true)).

(* ---- values that cannot make repr()/int() misbehave ------------------------------------------ *)
(* `tame`: not an infinite float and not an int beyond the interpreter's int->str digit limit.
   (Every real float has |x| < 2^1024, so the bound on PFloatInt/PFloatFrac only excludes values of
   the model that no float has.) *)
Definition tame_val (cfg : int_cfg) (v : pval) : bool :=
  match v with
  | PFloatInf _ => false
  | PInt z | PFloatInt z => negb (huge cfg z)
  | PFloatFrac fl => negb (huge cfg fl) && negb (huge cfg (fl + 1))
  | _ => true
  end.

Definition tame_opts (cfg : int_cfg) (o : opts) : bool := forallb (fun kv => tame_val cfg (snd kv)) o.
