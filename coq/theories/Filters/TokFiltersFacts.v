(* Facts about the token-stream filters (model: TokFilters.v).
   Part 1: generic list / table lemmas.   Part 2: str.upper / lower / capitalize (parametric in the tables,
   hypotheses are boolean checks).   Part 3: the three filters.   Part 4: instantiation with the tables
   regenerated from the running interpreter (the checks are evaluated by vm_compute). *)
From Coq Require Import ZArith.
From SqlModel Require Import Base PyStr TokFilters.
From SqlModel.Gen Require Import CaseTabs CaseTabs2.

(* ================================================================================================ *)
(* Part 1: generic lemmas                                                                           *)

Lemma umap_all_find P m c v : umap_all P m = true -> ufind c m = Some v -> P c v = true.
Proof.
  induction m as [|l IHl k w r IHr]; cbn [umap_all ufind]; intros HA HF; [discriminate|].
  apply andb_true_iff in HA as [HA Hr]. apply andb_true_iff in HA as [Hl Hk].
  destruct (N.compare c k) eqn:E.
  - apply N.compare_eq in E. subst c. injection HF as <-. exact Hk.
  - auto.
  - auto.
Qed.

Lemma flat_map_fix {A} (f : A -> list A) v : (forall c, In c v -> f c = [c]) -> flat_map f v = v.
Proof.
  induction v as [|c v IH]; intros H; cbn [flat_map]; [reflexivity|].
  rewrite (H c (or_introl eq_refl)), IH; [reflexivity|]. intros d Hd. apply H. right. exact Hd.
Qed.

Lemma firstn_app_exact {A} (p x : list A) : firstn (length p) (p ++ x) = p.
Proof. induction p as [|a p IH]; cbn [length firstn app]; [destruct x; reflexivity | now rewrite IH]. Qed.

Lemma skipn_app_exact {A} (p x : list A) : skipn (length p) (p ++ x) = x.
Proof. induction p as [|a p IH]; cbn [length skipn app]; [reflexivity | exact IH]. Qed.

Lemma py_mid_sandwich (q1 m q2 : list N) :
  py_mid (length q1) (length q2) (q1 ++ m ++ q2) = m.
Proof.
  unfold py_mid. rewrite !app_length.
  replace (length q1 + (length m + length q2) - length q2) with (length (q1 ++ m))
    by (rewrite app_length; lia).
  rewrite app_assoc, firstn_app_exact, skipn_app_exact. reflexivity.
Qed.

Lemma forallb_flat_map {A} (P : A -> bool) (f : A -> list A) v :
  (forall c, forallb P (f c) = true) -> forallb P (flat_map f v) = true.
Proof.
  intros H. induction v as [|c v IH]; cbn [flat_map forallb]; [reflexivity|].
  rewrite forallb_app, H, IH. reflexivity.
Qed.

(* ---- str.strip ---- *)
Lemma lstrip_nil_iff sp t : lstrip sp t = [] <-> all_space sp t = true.
Proof.
  unfold all_space. induction t as [|c t IH]; cbn [lstrip forallb]; [tauto|].
  destruct (cmem c sp); cbn [andb]; [exact IH|]. split; discriminate.
Qed.

Lemma lstrip_head sp t c r : lstrip sp t = c :: r -> cmem c sp = false.
Proof.
  induction t as [|d t IH]; cbn [lstrip]; [discriminate|].
  destruct (cmem d sp) eqn:E; [exact IH|]. intros H. injection H as <- _. exact E.
Qed.

Lemma all_space_app sp a b : all_space sp (a ++ b) = all_space sp a && all_space sp b.
Proof. unfold all_space. apply forallb_app. Qed.

Lemma all_space_cons sp c t : all_space sp (c :: t) = cmem c sp && all_space sp t.
Proof. reflexivity. Qed.

Lemma all_space_one sp c : all_space sp [c] = cmem c sp.
Proof. unfold all_space. cbn [forallb]. apply andb_true_r. Qed.

Lemma all_space_rev sp t : all_space sp (rev t) = all_space sp t.
Proof.
  induction t as [|c t IH]; [reflexivity|]. cbn [rev]. rewrite all_space_app, IH.
  unfold all_space. cbn [forallb]. rewrite andb_true_r. apply andb_comm.
Qed.

Lemma all_space_lstrip sp t : all_space sp (lstrip sp t) = all_space sp t.
Proof.
  unfold all_space. induction t as [|c t IH]; cbn [lstrip forallb]; [reflexivity|].
  destruct (cmem c sp) eqn:E; cbn [andb forallb]; [exact IH | now rewrite E].
Qed.

Lemma strip_nil_iff sp t : strip sp t = [] <-> all_space sp t = true.
Proof.
  unfold strip, rstrip. split.
  - intros H. assert (H1 : lstrip sp (rev (lstrip sp t)) = []).
    { destruct (lstrip sp (rev (lstrip sp t))) as [|a l]; [reflexivity|].
      cbn [rev] in H. destruct (rev l); discriminate. }
    apply lstrip_nil_iff in H1. rewrite all_space_rev, all_space_lstrip in H1. exact H1.
  - intros H. apply lstrip_nil_iff in H. rewrite H. reflexivity.
Qed.

(* ================================================================================================ *)
(* Part 2: the case conversions, parametric in the tables                                           *)

(* ---- str.upper ---- *)
Section Upper.
Variable m : umap.
Let up1 (c : N) : text := match ufind c m with Some v => v | None => [c] end.

Lemma py_upper_flat t : py_upper m t = flat_map up1 t.
Proof. reflexivity. Qed.

Lemma up1_fixed c : unmapped m c = true -> up1 c = [c].
Proof. unfold unmapped, up1. destruct (ufind c m); [discriminate | reflexivity]. Qed.

Hypothesis Hfix : images_fixed m = true.

Lemma up1_image_fixed c : flat_map up1 (up1 c) = up1 c.
Proof.
  unfold up1 at 2 3. destruct (ufind c m) as [v|] eqn:E.
  - apply flat_map_fix. intros d Hd. apply up1_fixed.
    pose proof (umap_all_find _ _ _ _ Hfix E) as HA. cbv beta in HA.
    rewrite forallb_forall in HA. apply HA. exact Hd.
  - cbn [flat_map]. unfold up1. rewrite E. reflexivity.
Qed.

Lemma py_upper_idem t : py_upper m (py_upper m t) = py_upper m t.
Proof.
  rewrite !py_upper_flat. induction t as [|c t IH]; [reflexivity|].
  cbn [flat_map]. rewrite flat_map_app, IH, up1_image_fixed. reflexivity.
Qed.
End Upper.

Section UpperSpace.
Variable m : umap.
Variable sp : cset.
Hypothesis Hns : nospace_tab sp m = true.

Lemma nospace_image c v : ufind c m = Some v -> cmem c sp = false /\ all_space sp v = false.
Proof.
  intros E. pose proof (umap_all_find _ _ _ _ Hns E) as HA. cbv beta in HA.
  apply andb_true_iff in HA as [Hk Hv]. split; [now destruct (cmem c sp)|].
  destruct v as [|d v]; [discriminate|]. unfold all_space. cbn [forallb] in *.
  apply andb_true_iff in Hv as [Hd _]. destruct (cmem d sp); [discriminate | reflexivity].
Qed.

Lemma py_upper_all_space t : all_space sp (py_upper m t) = all_space sp t.
Proof.
  unfold py_upper. induction t as [|c t IH]; [reflexivity|].
  cbn [flat_map]. rewrite all_space_app, IH, all_space_cons. f_equal.
  destruct (ufind c m) as [v|] eqn:E.
  - destruct (nospace_image _ _ E) as [H1 H2]. rewrite H1, H2. reflexivity.
  - apply all_space_one.
Qed.
End UpperSpace.

(* ---- str.lower / str.capitalize ---- *)
Section Lower.
Variable ltab ttab : umap.
Variable ci cni : cset.
Notation lgo := (lower_go ltab ci cni).
Notation lfix := (lowfix ltab).

Lemma low1_fixed c : lfix c = true -> N.eqb c SIGMA = false /\ low1 ltab c = [c].
Proof.
  unfold lowfix, unmapped, low1. intros H. apply andb_true_iff in H as [H1 H2].
  split; [now destruct (N.eqb c SIGMA)|]. destruct (ufind c ltab); [discriminate | reflexivity].
Qed.

(* lower-casing leaves a text of fixed characters alone, in any context *)
Lemma lower_go_fixed t : forall st, forallb lfix t = true -> lgo st t = t.
Proof.
  induction t as [|c t IH]; intros st H; cbn [lower_go forallb] in *; [reflexivity|].
  apply andb_true_iff in H as [Hc Ht]. destruct (low1_fixed _ Hc) as [E1 E2].
  rewrite E1, E2, IH by exact Ht. reflexivity.
Qed.

Hypothesis Hfix : lower_images_fixed ltab = true.

Lemma low1_image_fixed c : N.eqb c SIGMA = false -> forallb lfix (low1 ltab c) = true.
Proof.
  intros Hs. unfold low1. destruct (ufind c ltab) as [v|] eqn:E.
  - unfold lower_images_fixed in Hfix. apply andb_true_iff in Hfix as [H _].
    apply andb_true_iff in H as [H _]. exact (umap_all_find _ _ _ _ H E).
  - cbn [forallb]. unfold lowfix, unmapped. rewrite Hs, E. reflexivity.
Qed.

Lemma sigma_images_fixed : lfix FINAL_SIGMA = true /\ lfix SMALL_SIGMA = true.
Proof.
  unfold lower_images_fixed in Hfix. apply andb_true_iff in Hfix as [H H2].
  apply andb_true_iff in H as [_ H1]. split; assumption.
Qed.

(* every character str.lower produces is a fixed point of lower-casing *)
Lemma lower_go_out_fixed t : forall st, forallb lfix (lgo st t) = true.
Proof.
  induction t as [|c t IH]; intros st; cbn [lower_go]; [reflexivity|].
  rewrite forallb_app, IH, andb_true_r.
  destruct (N.eqb c SIGMA) eqn:E; [|apply low1_image_fixed; exact E].
  destruct sigma_images_fixed as [H1 H2].
  destruct (st && sigma_after ci cni t); cbn [forallb]; rewrite ?H1, ?H2; reflexivity.
Qed.

Lemma py_lower_idem t : py_lower ltab ci cni (py_lower ltab ci cni t) = py_lower ltab ci cni t.
Proof. unfold py_lower. apply lower_go_fixed. apply lower_go_out_fixed. Qed.

(* capitalize: idempotent unless the title-case image of the first character is changed by a
   second application (cap_good fails) *)
Lemma tit1_good_unmapped c : unmapped ttab c = true -> cap_good ltab ttab (tit1 ttab c) = true.
Proof.
  intros H. unfold tit1. unfold unmapped in H. destruct (ufind c ttab) eqn:E; [discriminate|].
  unfold cap_good, unmapped. rewrite E. reflexivity.
Qed.

Lemma py_capitalize_idem_good c t :
  cap_good ltab ttab (tit1 ttab c) = true ->
  py_capitalize ltab ttab ci cni (py_capitalize ltab ttab ci cni (c :: t)) = py_capitalize ltab ttab ci cni (c :: t).
Proof.
  intros Hg. cbn [py_capitalize]. destruct (tit1 ttab c) as [|h tl] eqn:E; [discriminate|].
  cbn [cap_good] in Hg. apply andb_true_iff in Hg as [Hh Htl].
  cbn [app py_capitalize]. unfold tit1 at 1. unfold unmapped in Hh.
  destruct (ufind h ttab); [discriminate|]. cbn [app]. f_equal.
  apply lower_go_fixed. rewrite forallb_app, Htl. apply lower_go_out_fixed.
Qed.

Variable bad : list N.
Hypothesis Hgood : title_images_good ltab ttab bad = true.

Lemma tit1_good c : ~ In c bad -> cap_good ltab ttab (tit1 ttab c) = true.
Proof.
  intros Hb. destruct (ufind c ttab) as [v|] eqn:E.
  - unfold tit1. rewrite E. pose proof (umap_all_find _ _ _ _ Hgood E) as H. cbv beta in H.
    apply orb_true_iff in H as [H|H]; [exact H|]. exfalso. apply Hb.
    apply existsb_exists in H as [x [Hx Hx2]]. apply N.eqb_eq in Hx2. subst x. exact Hx.
  - apply tit1_good_unmapped. unfold unmapped. rewrite E. reflexivity.
Qed.

Lemma py_capitalize_idem t :
  match t with c :: _ => ~ In c bad | [] => True end ->
  py_capitalize ltab ttab ci cni (py_capitalize ltab ttab ci cni t) = py_capitalize ltab ttab ci cni t.
Proof.
  destruct t as [|c t]; [reflexivity|]. intros Hb. apply py_capitalize_idem_good. apply tit1_good. exact Hb.
Qed.

(* a character whose title-case is [a; b] with b changed by lower-casing: capitalize is not idempotent
   on ANY text starting with it *)
Lemma py_capitalize_not_idem c a b b' t :
  tit1 ttab c = [a; b] -> tit1 ttab a = [a] -> N.eqb b SIGMA = false -> low1 ltab b = [b'] -> b <> b' ->
  py_capitalize ltab ttab ci cni (py_capitalize ltab ttab ci cni (c :: t)) <> py_capitalize ltab ttab ci cni (c :: t).
Proof.
  intros Hc Ha Hs Hb Hne. cbn [py_capitalize]. rewrite Hc. cbn [app py_capitalize]. rewrite Ha.
  cbn [app lower_go]. rewrite Hs, Hb. cbn [app]. intros H. injection H as H _. apply Hne. symmetry. exact H.
Qed.
End Lower.

Section LowerSpace.
Variable ltab ttab : umap.
Variable ci cni sp : cset.
Hypothesis Hl : nospace_tab sp ltab = true.
Hypothesis Ht : nospace_tab sp ttab = true.
Hypothesis Hs : cmem SIGMA sp = false /\ cmem FINAL_SIGMA sp = false /\ cmem SMALL_SIGMA sp = false.

Lemma one_all_space (tab : umap) c :
  nospace_tab sp tab = true ->
  all_space sp (match ufind c tab with Some v => v | None => [c] end) = cmem c sp.
Proof.
  intros H. destruct (ufind c tab) as [v|] eqn:E.
  - destruct (nospace_image _ _ H _ _ E) as [H1 H2]. rewrite H1, H2. reflexivity.
  - apply all_space_one.
Qed.

Lemma lower_go_all_space t : forall st, all_space sp (lower_go ltab ci cni st t) = all_space sp t.
Proof.
  destruct Hs as [S1 [S2 S3]].
  induction t as [|c t IH]; intros st; cbn [lower_go]; [reflexivity|].
  rewrite all_space_app, IH, all_space_cons. f_equal.
  destruct (N.eqb c SIGMA) eqn:E.
  - apply N.eqb_eq in E. subst c. rewrite S1.
    destruct (st && sigma_after ci cni t); rewrite all_space_one; assumption.
  - apply (one_all_space ltab c Hl).
Qed.

Lemma py_lower_all_space t : all_space sp (py_lower ltab ci cni t) = all_space sp t.
Proof. apply lower_go_all_space. Qed.

Lemma py_capitalize_all_space t : all_space sp (py_capitalize ltab ttab ci cni t) = all_space sp t.
Proof.
  destruct t as [|c t]; [reflexivity|]. cbn [py_capitalize].
  rewrite all_space_app, lower_go_all_space, all_space_cons. f_equal.
  apply (one_all_space ttab c Ht).
Qed.
End LowerSpace.

(* ================================================================================================ *)
(* Part 3: the filters, for ALL token lists                                                         *)

(* ---- KeywordCaseFilter ---- *)
Theorem kwcase_spec cv toks :
  kwcase cv toks = map (fun t : tok => let '(ty, v) := t in if tin ty T_Keyword then (ty, cv v) else (ty, v)) toks.
Proof.
  induction toks as [|[ty v] r IH]; cbn [kwcase map]; [reflexivity|].
  rewrite IH. destruct (tin ty T_Keyword); reflexivity.
Qed.

Lemma kwcase_map cv toks : kwcase cv toks = map (kw_edit cv) toks.
Proof. apply kwcase_spec. Qed.

Theorem kwcase_types cv toks : map fst (kwcase cv toks) = map fst toks.
Proof.
  rewrite kwcase_map, map_map. apply map_ext. intros [ty v]. unfold kw_edit.
  destruct (tin ty T_Keyword); reflexivity.
Qed.

Theorem kwcase_length cv toks : length (kwcase cv toks) = length toks.
Proof. rewrite kwcase_map. apply map_length. Qed.

(* position by position: same type; the value is converted exactly for keyword types *)
Theorem kwcase_nth cv toks i ty v :
  nth_error toks i = Some (ty, v) ->
  nth_error (kwcase cv toks) i = Some (ty, if tin ty T_Keyword then cv v else v).
Proof.
  intros H. rewrite kwcase_map. rewrite (map_nth_error _ _ _ H). unfold kw_edit.
  destruct (tin ty T_Keyword); reflexivity.
Qed.

Corollary kwcase_untouched cv toks i ty v :
  nth_error toks i = Some (ty, v) -> tin ty T_Keyword = false ->
  nth_error (kwcase cv toks) i = Some (ty, v).
Proof. intros H E. rewrite (kwcase_nth _ _ _ _ _ H), E. reflexivity. Qed.

Theorem kwcase_idem_gen cv toks :
  (forall v, cv (cv v) = cv v) -> kwcase cv (kwcase cv toks) = kwcase cv toks.
Proof.
  intros Hcv. rewrite !kwcase_map, map_map. apply map_ext. intros [ty v]. unfold kw_edit.
  destruct (tin ty T_Keyword) eqn:E; rewrite E; [rewrite Hcv|]; reflexivity.
Qed.

(* ---- IdentifierCaseFilter ---- *)
Lemma id_target_iff ty : id_target ty = true <-> ty = T_Name \/ ty = T_Symbol.
Proof. unfold id_target. rewrite orb_true_iff, !ttype_eqb_eq. tauto. Qed.

Lemma idcase_val_spec sp cv v :
  idcase_val sp cv v =
  if all_space sp v then Err IndexError
  else Ok (if negb (match strip sp v with c :: _ => N.eqb c DQUOTE | [] => false end) then cv v else v).
Proof.
  unfold idcase_val. destruct (all_space sp v) eqn:E.
  - apply strip_nil_iff in E. rewrite E. reflexivity.
  - destruct (strip sp v) as [|c r] eqn:S.
    + apply strip_nil_iff in S. congruence.
    + destruct (N.eqb c DQUOTE); reflexivity.
Qed.

(* exact characterisation: IndexError iff some Name / String.Symbol token is empty or all whitespace;
   otherwise a map that converts exactly the Name / String.Symbol tokens whose stripped value does
   not start with a double quote *)
Theorem idcase_spec sp cv toks :
  idcase_gen sp cv toks = if id_safe sp toks then Ok (map (id_edit sp cv) toks) else Err IndexError.
Proof.
  induction toks as [|[ty v] r IH]; cbn [idcase_gen id_safe forallb map]; [reflexivity|].
  fold (id_safe sp r). rewrite IH. unfold id_edit, id_converts.
  destruct (id_target ty) eqn:T; cbn [andb negb bind].
  - rewrite idcase_val_spec. destruct (all_space sp v); cbn [negb andb bind]; [reflexivity|].
    destruct (id_safe sp r); cbn [bind]; [|reflexivity].
    destruct (negb _); reflexivity.
  - destruct (id_safe sp r); reflexivity.
Qed.

Theorem idcase_ok_iff sp cv toks : (exists out, idcase_gen sp cv toks = Ok out) <-> id_safe sp toks = true.
Proof.
  rewrite idcase_spec. destruct (id_safe sp toks); split; intros H; try reflexivity; try discriminate.
  - eexists; reflexivity.
  - destruct H as [o H]. discriminate.
Qed.

Theorem idcase_only_IndexError sp cv toks e : idcase_gen sp cv toks = Err e -> e = IndexError.
Proof. rewrite idcase_spec. destruct (id_safe sp toks); intros H; [discriminate | now injection H]. Qed.

Theorem idcase_types sp cv toks out : idcase_gen sp cv toks = Ok out -> map fst out = map fst toks.
Proof.
  rewrite idcase_spec. destruct (id_safe sp toks); [|discriminate]. intros H. injection H as <-.
  rewrite map_map. apply map_ext. intros [ty v]. unfold id_edit. destruct (id_converts sp ty v); reflexivity.
Qed.

Theorem idcase_nth sp cv toks out i ty v :
  idcase_gen sp cv toks = Ok out -> nth_error toks i = Some (ty, v) ->
  nth_error out i = Some (ty, if id_converts sp ty v then cv v else v).
Proof.
  rewrite idcase_spec. destruct (id_safe sp toks); [|discriminate]. intros H. injection H as <-.
  intros H. rewrite (map_nth_error _ _ _ H). unfold id_edit. destruct (id_converts sp ty v); reflexivity.
Qed.

(* untouched: every type other than exactly Name / String.Symbol (so also Name.Builtin, Name.Placeholder),
   and every value in double quotes *)
Corollary idcase_untouched sp cv toks out i ty v :
  idcase_gen sp cv toks = Ok out -> nth_error toks i = Some (ty, v) ->
  (ty <> T_Name /\ ty <> T_Symbol) \/ (exists r, strip sp v = DQUOTE :: r) ->
  nth_error out i = Some (ty, v).
Proof.
  intros H1 H2 H3. rewrite (idcase_nth _ _ _ _ _ _ _ H1 H2). unfold id_converts.
  destruct H3 as [[Ha Hb]|[r Hr]].
  - destruct (id_target ty) eqn:T; [|reflexivity]. apply id_target_iff in T. tauto.
  - rewrite Hr. cbn [N.eqb DQUOTE Pos.eqb negb]. rewrite andb_false_r. reflexivity.
Qed.

Lemma id_safe_map_edit sp cv toks :
  (forall v, all_space sp (cv v) = all_space sp v) ->
  id_safe sp (map (id_edit sp cv) toks) = id_safe sp toks.
Proof.
  intros Hsp. unfold id_safe. induction toks as [|[ty v] r IH]; cbn [map forallb]; [reflexivity|].
  rewrite IH. f_equal. unfold id_edit. destruct (id_converts sp ty v); [rewrite Hsp|]; reflexivity.
Qed.

Theorem idcase_idem_gen sp cv toks out :
  (forall v, cv (cv v) = cv v) -> (forall v, all_space sp (cv v) = all_space sp v) ->
  idcase_gen sp cv toks = Ok out -> idcase_gen sp cv out = Ok out.
Proof.
  intros Hcv Hsp. rewrite !idcase_spec. destruct (id_safe sp toks) eqn:S; [|discriminate].
  intros H. injection H as <-. rewrite id_safe_map_edit, S by exact Hsp. f_equal.
  rewrite map_map. apply map_ext. intros [ty v]. unfold id_edit.
  destruct (id_converts sp ty v) eqn:E; [|rewrite E; reflexivity].
  destruct (id_converts sp ty (cv v)); [rewrite Hcv|]; reflexivity.
Qed.

(* ---- TruncateStringFilter ---- *)
Theorem truncate_spec w ch toks : truncate w ch toks = map (tr_edit w ch) toks.
Proof.
  induction toks as [|[ty v] r IH]; cbn [truncate map]; [reflexivity|].
  rewrite IH. unfold tr_edit, trunc_val. destruct (ttype_eqb ty T_Single); cbn [andb]; [|reflexivity].
  destruct (w <? Z.of_nat (length (trunc_inner v)))%Z; reflexivity.
Qed.

(* what quote / inner are.  (1) the value starts with two single quotes: quote is two single quotes and
   inner is value[2:-2]; (2) otherwise quote is ONE single quote and inner is value[1:-1] - whatever the
   first and last characters of the value are. *)
Theorem trunc_parts_two v r :
  v = SQUOTE :: SQUOTE :: r ->
  trunc_quote v = [SQUOTE; SQUOTE] /\ trunc_inner v = skipn 2 (firstn (length v - 2) v).
Proof. intros ->. split; reflexivity. Qed.

Theorem trunc_parts_one v :
  (forall r, v <> SQUOTE :: SQUOTE :: r) ->
  trunc_quote v = [SQUOTE] /\ trunc_inner v = skipn 1 (firstn (length v - 1) v).
Proof.
  intros H. unfold trunc_quote, trunc_inner.
  destruct (text_eqb (firstn 2 v) [SQUOTE; SQUOTE]) eqn:E; [|split; reflexivity].
  apply text_eqb_eq in E. destruct v as [|a [|b r]]; try discriminate.
  cbn [firstn] in E. injection E as -> ->. exfalso. exact (H r eq_refl).
Qed.

(* for a well-delimited value the slices are the text between the delimiters *)
Theorem trunc_inner_delimited2 m : trunc_inner ([SQUOTE; SQUOTE] ++ m ++ [SQUOTE; SQUOTE]) = m.
Proof. exact (py_mid_sandwich [SQUOTE; SQUOTE] m [SQUOTE; SQUOTE]). Qed.

Theorem trunc_inner_delimited1 m a z :
  (forall r, a :: m ++ [z] <> SQUOTE :: SQUOTE :: r) -> trunc_inner (a :: m ++ [z]) = m.
Proof.
  intros H. destruct (trunc_parts_one _ H) as [_ ->]. exact (py_mid_sandwich [a] m [z]).
Qed.

Theorem truncate_types w ch toks : map fst (truncate w ch toks) = map fst toks.
Proof.
  rewrite truncate_spec, map_map. apply map_ext. intros [ty v]. unfold tr_edit.
  destruct (_ && _); reflexivity.
Qed.

Theorem truncate_length w ch toks : length (truncate w ch toks) = length toks.
Proof. rewrite truncate_spec. apply map_length. Qed.

Theorem truncate_nth w ch toks i ty v :
  nth_error toks i = Some (ty, v) ->
  nth_error (truncate w ch toks) i =
  Some (ty, if ttype_eqb ty T_Single && (w <? Z.of_nat (length (trunc_inner v)))%Z
            then trunc_quote v ++ py_prefix w (trunc_inner v) ++ ch ++ trunc_quote v else v).
Proof.
  intros H. rewrite truncate_spec, (map_nth_error _ _ _ H). unfold tr_edit. destruct (_ && _); reflexivity.
Qed.

Corollary truncate_untouched w ch toks i ty v :
  nth_error toks i = Some (ty, v) ->
  ty <> T_Single \/ (Z.of_nat (length (trunc_inner v)) <= w)%Z ->
  nth_error (truncate w ch toks) i = Some (ty, v).
Proof.
  intros H [Hn|Hl]; rewrite (truncate_nth _ _ _ _ _ _ H).
  - destruct (ttype_eqb ty T_Single) eqn:E; [apply ttype_eqb_eq in E; contradiction | reflexivity].
  - apply Z.ltb_ge in Hl. rewrite Hl, andb_false_r. reflexivity.
Qed.

(* for 0 <= N the kept part is the first N characters of inner *)
Lemma py_prefix_nonneg w t : (0 <= w)%Z -> py_prefix w t = firstn (Z.to_nat w) t.
Proof. intros H. unfold py_prefix. apply Z.leb_le in H. rewrite H. reflexivity. Qed.

(* an ordinary literal: quote, content not starting with a quote, quote.  This is the case in which the
   filter does what the option promises: content longer than N -> quote, first N characters of the
   content, marker, quote; otherwise unchanged *)
Theorem trunc_val_plain w ch b m :
  (0 <= w)%Z -> b <> SQUOTE ->
  trunc_val w ch (SQUOTE :: (b :: m) ++ [SQUOTE]) =
  if (w <? Z.of_nat (length (b :: m)))%Z
  then SQUOTE :: firstn (Z.to_nat w) (b :: m) ++ ch ++ [SQUOTE]
  else SQUOTE :: (b :: m) ++ [SQUOTE].
Proof.
  intros Hw Hb. apply N.eqb_neq in Hb.
  assert (E : text_eqb (firstn 2 (SQUOTE :: (b :: m) ++ [SQUOTE])) [SQUOTE; SQUOTE] = false).
  { cbn [app firstn text_eqb]. rewrite Hb. cbn [andb]. apply andb_false_r. }
  unfold trunc_val, trunc_inner, trunc_quote. rewrite E.
  rewrite (py_mid_sandwich [SQUOTE] (b :: m) [SQUOTE] : py_mid 1 1 (SQUOTE :: (b :: m) ++ [SQUOTE]) = b :: m).
  destruct (w <? Z.of_nat (length (b :: m)))%Z; [|reflexivity].
  rewrite py_prefix_nonneg by exact Hw. reflexivity.
Qed.

(* the empty literal is never touched *)
Theorem trunc_val_empty w ch : (0 <= w)%Z -> trunc_val w ch [SQUOTE; SQUOTE] = [SQUOTE; SQUOTE].
Proof.
  intros Hw. unfold trunc_val. change (trunc_inner [SQUOTE; SQUOTE]) with (@nil N).
  replace (w <? Z.of_nat (length (@nil N)))%Z with false by (symmetry; apply Z.ltb_ge; cbn [length Z.of_nat]; lia).
  reflexivity.
Qed.

(* idempotence of the value edit *)
Lemma trunc_val_again w ch q p :
  (0 <= w)%Z -> length p = Z.to_nat w ->
  trunc_quote (q ++ (p ++ ch) ++ q) = q -> trunc_inner (q ++ (p ++ ch) ++ q) = p ++ ch ->
  trunc_val w ch (q ++ (p ++ ch) ++ q) = q ++ (p ++ ch) ++ q.
Proof.
  intros Hw Hp Hq Hi. unfold trunc_val. rewrite Hq, Hi.
  destruct (w <? Z.of_nat (length (p ++ ch)))%Z; [|reflexivity].
  rewrite py_prefix_nonneg by exact Hw. rewrite <- Hp, firstn_app_exact, <- app_assoc. reflexivity.
Qed.

Lemma firstn_length_lt {A} n (l : list A) : n < length l -> length (firstn n l) = n.
Proof. intros H. rewrite firstn_length. lia. Qed.

Lemma two_quote_eqb r : text_eqb (firstn 2 (SQUOTE :: SQUOTE :: r)) [SQUOTE; SQUOTE] = true.
Proof. reflexivity. Qed.

Lemma one_quote_eqb b r :
  N.eqb b SQUOTE = false -> text_eqb (firstn 2 (SQUOTE :: b :: r)) [SQUOTE; SQUOTE] = false.
Proof. intros H. cbn [firstn text_eqb]. rewrite H. cbn [andb]. apply andb_false_r. Qed.

Lemma trunc_val_idem_two w ch r :
  (0 <= w)%Z ->
  trunc_val w ch (trunc_val w ch (SQUOTE :: SQUOTE :: r)) = trunc_val w ch (SQUOTE :: SQUOTE :: r).
Proof.
  intros Hw. set (v := SQUOTE :: SQUOTE :: r).
  destruct (w <? Z.of_nat (length (trunc_inner v)))%Z eqn:L.
  2:{ unfold trunc_val. rewrite L. unfold trunc_val. rewrite L. reflexivity. }
  destruct (trunc_parts_two v r eq_refl) as [Hq _].
  set (p := firstn (Z.to_nat w) (trunc_inner v)).
  assert (Hout : trunc_val w ch v = [SQUOTE; SQUOTE] ++ (p ++ ch) ++ [SQUOTE; SQUOTE]).
  { unfold trunc_val. rewrite L, Hq, py_prefix_nonneg by exact Hw. fold p. rewrite (app_assoc p ch). reflexivity. }
  apply Z.ltb_lt in L.
  assert (Hp : length p = Z.to_nat w) by (apply firstn_length_lt; lia).
  rewrite Hout. apply trunc_val_again; [exact Hw | exact Hp | reflexivity |].
  change ([SQUOTE; SQUOTE] ++ (p ++ ch) ++ [SQUOTE; SQUOTE])
    with (SQUOTE :: SQUOTE :: ((p ++ ch) ++ [SQUOTE; SQUOTE])).
  unfold trunc_inner. rewrite two_quote_eqb.
  exact (py_mid_sandwich [SQUOTE; SQUOTE] (p ++ ch) [SQUOTE; SQUOTE]).
Qed.

Lemma py_mid_11 a b r : py_mid 1 1 (a :: b :: r) = firstn (length r) (b :: r).
Proof.
  unfold py_mid. cbn [length]. replace (S (S (length r)) - 1) with (S (length r)) by lia. reflexivity.
Qed.

Lemma trunc_val_idem_one w ch b r :
  (1 <= w)%Z -> N.eqb b SQUOTE = false ->
  trunc_val w ch (trunc_val w ch (SQUOTE :: b :: r)) = trunc_val w ch (SQUOTE :: b :: r).
Proof.
  intros Hw Hb. set (v := SQUOTE :: b :: r).
  destruct (w <? Z.of_nat (length (trunc_inner v)))%Z eqn:L.
  2:{ unfold trunc_val. rewrite L. unfold trunc_val. rewrite L. reflexivity. }
  assert (Hq : trunc_quote v = [SQUOTE]) by (unfold trunc_quote, v; rewrite (one_quote_eqb _ _ Hb); reflexivity).
  assert (Hi : trunc_inner v = firstn (length r) (b :: r))
    by (unfold trunc_inner, v; rewrite (one_quote_eqb _ _ Hb); apply py_mid_11).
  assert (Hw0 : (0 <= w)%Z) by lia.
  set (n := Z.to_nat w).
  set (p := firstn n (firstn (length r) (b :: r))).
  assert (Hout : trunc_val w ch v = [SQUOTE] ++ (p ++ ch) ++ [SQUOTE]).
  { unfold trunc_val. rewrite L, Hq, Hi, py_prefix_nonneg by exact Hw0. fold n. fold p.
    rewrite (app_assoc p ch). reflexivity. }
  apply Z.ltb_lt in L. rewrite Hi in L.
  assert (Hn : 1 <= n) by (unfold n; lia).
  assert (Hlen : n < length (firstn (length r) (b :: r))) by (unfold n; lia).
  assert (Hp : length p = n) by (apply firstn_length_lt; exact Hlen).
  (* p starts with b *)
  assert (Hpb : exists p', p = b :: p').
  { unfold p. destruct r as [|c r']; [cbn in Hlen; lia|]. cbn [length firstn].
    destruct n as [|n']; [lia|]. cbn [firstn]. eexists; reflexivity. }
  destruct Hpb as [p' Hpb].
  rewrite Hout. apply trunc_val_again; [exact Hw0 | exact Hp | |].
  - rewrite Hpb. unfold trunc_quote. cbn [app]. rewrite (one_quote_eqb _ _ Hb). reflexivity.
  - rewrite Hpb. unfold trunc_inner. cbn [app]. rewrite (one_quote_eqb _ _ Hb).
    exact (py_mid_sandwich [SQUOTE] ((b :: p') ++ ch) [SQUOTE]).
Qed.

Lemma trunc_val_idem w ch v :
  (1 <= w)%Z -> (exists r, v = SQUOTE :: r) -> trunc_val w ch (trunc_val w ch v) = trunc_val w ch v.
Proof.
  intros Hw [r ->]. destruct r as [|b r].
  - (* a lone quote: inner is empty *)
    assert (H1 : trunc_val w ch [SQUOTE] = [SQUOTE]).
    { unfold trunc_val. change (trunc_inner [SQUOTE]) with (@nil N).
      replace (w <? Z.of_nat (length (@nil N)))%Z with false by (symmetry; apply Z.ltb_ge; cbn [length Z.of_nat]; lia).
      reflexivity. }
    rewrite H1. exact H1.
  - destruct (N.eqb b SQUOTE) eqn:E.
    + apply N.eqb_eq in E. subst b. apply trunc_val_idem_two. lia.
    + apply trunc_val_idem_one; assumption.
Qed.

(* applying truncate to its own output changes nothing, for N >= 1 and when every String.Single value
   starts with a quote (which is what the lexer produces) *)
Theorem truncate_idem w ch toks :
  (1 <= w)%Z -> singles_quoted toks = true -> truncate w ch (truncate w ch toks) = truncate w ch toks.
Proof.
  intros Hw. induction toks as [|[ty v] r IH]; cbn [truncate singles_quoted forallb]; [reflexivity|].
  fold (singles_quoted r). intros H. apply andb_true_iff in H as [Hv Hr]. rewrite (IH Hr).
  destruct (ttype_eqb ty T_Single) eqn:E; [|reflexivity].
  cbn [negb orb] in Hv. destruct v as [|c v']; [discriminate|]. apply N.eqb_eq in Hv. subst c.
  rewrite trunc_val_idem; [reflexivity | exact Hw | eexists; reflexivity].
Qed.

(* ... and the output again satisfies the hypothesis *)
Lemma trunc_val_quoted w ch v : (exists r, v = SQUOTE :: r) -> exists r, trunc_val w ch v = SQUOTE :: r.
Proof.
  intros [r ->]. unfold trunc_val. destruct (_ <? _)%Z; [|eexists; reflexivity].
  unfold trunc_quote. destruct (text_eqb _ _); eexists; reflexivity.
Qed.

Theorem truncate_singles_quoted w ch toks :
  singles_quoted toks = true -> singles_quoted (truncate w ch toks) = true.
Proof.
  induction toks as [|[ty v] r IH]; cbn [truncate singles_quoted forallb]; [reflexivity|].
  fold (singles_quoted r). fold (singles_quoted (truncate w ch r)). intros H.
  apply andb_true_iff in H as [Hv Hr]. rewrite (IH Hr), andb_true_r.
  destruct (ttype_eqb ty T_Single) eqn:E; cbn [negb orb] in *; [|reflexivity].
  destruct v as [|c v']; [discriminate|]. apply N.eqb_eq in Hv. subst c.
  destruct (trunc_val_quoted w ch (SQUOTE :: v') (ex_intro _ v' eq_refl)) as [r' ->]. apply N.eqb_refl.
Qed.

(* idempotence needs conv (conv v) = conv v only for the values that are actually converted *)
Theorem kwcase_idem_on cv toks :
  (forall ty v, In (ty, v) toks -> tin ty T_Keyword = true -> cv (cv v) = cv v) ->
  kwcase cv (kwcase cv toks) = kwcase cv toks.
Proof.
  intros Hcv. rewrite !kwcase_map, map_map. apply map_ext_in. intros [ty v] Hin. unfold kw_edit.
  destruct (tin ty T_Keyword) eqn:E; rewrite E; [rewrite (Hcv ty v Hin E)|]; reflexivity.
Qed.

Theorem idcase_idem_on sp cv toks out :
  (forall ty v, In (ty, v) toks -> id_converts sp ty v = true -> cv (cv v) = cv v) ->
  (forall v, all_space sp (cv v) = all_space sp v) ->
  idcase_gen sp cv toks = Ok out -> idcase_gen sp cv out = Ok out.
Proof.
  intros Hcv Hsp. rewrite !idcase_spec. destruct (id_safe sp toks) eqn:S; [|discriminate].
  intros H. injection H as <-. rewrite id_safe_map_edit, S by exact Hsp. f_equal.
  rewrite map_map. apply map_ext_in. intros [ty v] Hin. unfold id_edit.
  destruct (id_converts sp ty v) eqn:E; [|rewrite E; reflexivity].
  destruct (id_converts sp ty (cv v)); [rewrite (Hcv ty v Hin E)|]; reflexivity.
Qed.

(* ---- the whole preprocess stack ---- *)
Theorem preprocess_types kw idc tr toks out :
  preprocess kw idc tr toks = Ok out -> map fst out = map fst toks.
Proof.
  unfold preprocess. intros H.
  set (t1 := match kw with Some c => kwcase (conv_fn c) toks | None => toks end) in *.
  assert (H1 : map fst t1 = map fst toks) by (unfold t1; destruct kw; [apply kwcase_types | reflexivity]).
  destruct idc as [c|]; cbn [bind] in H.
  - destruct (idcase (conv_fn c) t1) as [t2|e] eqn:E; cbn [bind] in H; [|discriminate].
    injection H as <-. apply idcase_types in E. destruct tr as [[w ch]|]; [rewrite truncate_types|]; congruence.
  - injection H as <-. destruct tr as [[w ch]|]; [rewrite truncate_types|]; congruence.
Qed.

Theorem preprocess_only_IndexError kw idc tr toks e : preprocess kw idc tr toks = Err e -> e = IndexError.
Proof.
  unfold preprocess. destruct idc as [c|]; cbn [bind]; [|discriminate].
  destruct (idcase _ _) eqn:E; cbn [bind]; [discriminate|]. intros H. injection H as <-.
  exact (idcase_only_IndexError _ _ _ _ E).
Qed.

(* tokens that are neither keywords, nor Name / String.Symbol, nor String.Single pass through the whole
   stack unchanged, at the same position *)
Theorem preprocess_untouched kw idc tr toks out i ty v :
  preprocess kw idc tr toks = Ok out -> nth_error toks i = Some (ty, v) ->
  tin ty T_Keyword = false -> ty <> T_Name -> ty <> T_Symbol -> ty <> T_Single ->
  nth_error out i = Some (ty, v).
Proof.
  unfold preprocess. intros H Hn Hk Hnm Hsy Hsi.
  set (t1 := match kw with Some c => kwcase (conv_fn c) toks | None => toks end) in *.
  assert (H1 : nth_error t1 i = Some (ty, v))
    by (unfold t1; destruct kw; [apply kwcase_untouched; assumption | exact Hn]).
  assert (H2 : forall t2, (match idc with Some c => idcase (conv_fn c) t1 | None => Ok t1 end) = Ok t2 ->
                          nth_error t2 i = Some (ty, v)).
  { intros t2 E. destruct idc as [c|]; [|injection E as <-; exact H1].
    eapply idcase_untouched; [exact E | exact H1 | left; split; assumption]. }
  destruct (match idc with Some c => idcase (conv_fn c) t1 | None => Ok t1 end) as [t2|e]; cbn [bind] in H; [|discriminate].
  injection H as <-. specialize (H2 t2 eq_refl). destruct tr as [[w ch]|]; [|exact H2].
  apply truncate_untouched; [exact H2 | left; exact Hsi].
Qed.

(* ================================================================================================ *)
(* Part 4: the current interpreter's tables                                                         *)

(* the constants of the Final_Sigma rule are the ones the translator validated *)
Example sigma_consts : (sigma_cp, final_sigma_cp, nonfinal_sigma_cp) = (SIGMA, FINAL_SIGMA, SMALL_SIGMA).
Proof. reflexivity. Qed.

Lemma upper_tab_fixed : images_fixed upper_tab = true.
Proof. vm_compute. reflexivity. Qed.
Lemma lower_tab_fixed : lower_images_fixed full_lower_tab = true.
Proof. vm_compute. reflexivity. Qed.
(* U+0149 is the only character whose title-case image is changed by a second capitalize *)
Definition cap_bad : list N := [329%N].
Lemma title_tab_good : title_images_good full_lower_tab title_tab cap_bad = true.
Proof. vm_compute. reflexivity. Qed.
Lemma upper_tab_nospace : nospace_tab space_set upper_tab = true.
Proof. vm_compute. reflexivity. Qed.
Lemma lower_tab_nospace : nospace_tab space_set full_lower_tab = true.
Proof. vm_compute. reflexivity. Qed.
Lemma title_tab_nospace : nospace_tab space_set title_tab = true.
Proof. vm_compute. reflexivity. Qed.
Lemma sigma_nospace :
  cmem SIGMA space_set = false /\ cmem FINAL_SIGMA space_set = false /\ cmem SMALL_SIGMA space_set = false.
Proof. vm_compute. repeat split. Qed.

Theorem upper_idem v : upper (upper v) = upper v.
Proof. apply py_upper_idem. exact upper_tab_fixed. Qed.

Theorem lower_idem v : cur_lower (cur_lower v) = cur_lower v.
Proof. apply py_lower_idem. exact lower_tab_fixed. Qed.

Lemma tit1_0149 : tit1 title_tab 329 = [700; 78]%N.
Proof. vm_compute. reflexivity. Qed.
Lemma tit1_02bc : tit1 title_tab 700 = [700]%N.
Proof. vm_compute. reflexivity. Qed.
Lemma low1_N : low1 full_lower_tab 78 = [110]%N.
Proof. vm_compute. reflexivity. Qed.

(* capitalize is idempotent exactly on the texts that do not start with U+0149 *)
Theorem capitalize_idem_iff v :
  cur_capitalize (cur_capitalize v) = cur_capitalize v <-> hd_error v <> Some 329%N.
Proof.
  unfold cur_capitalize. split.
  - intros H E. destruct v as [|c t]; [discriminate|]. cbn [hd_error] in E. injection E as ->.
    revert H. apply (py_capitalize_not_idem full_lower_tab title_tab _ _ 329 700 78 110 t)%N.
    + exact tit1_0149.
    + exact tit1_02bc.
    + reflexivity.
    + exact low1_N.
    + discriminate.
  - intros H. apply (py_capitalize_idem _ _ _ _ lower_tab_fixed cap_bad title_tab_good).
    destruct v as [|c t]; [exact I|]. cbn [hd_error] in H. intros [Hc|[]]. apply H. congruence.
Qed.

Theorem capitalize_idem_refuted : exists v, cur_capitalize (cur_capitalize v) <> cur_capitalize v.
Proof. exists [329%N]. vm_compute. discriminate. Qed.

Theorem conv_idem c v :
  c <> CCapitalize \/ hd_error v <> Some 329%N -> conv_fn c (conv_fn c v) = conv_fn c v.
Proof.
  intros H. destruct c; cbn [conv_fn].
  - apply upper_idem.
  - apply lower_idem.
  - apply capitalize_idem_iff. destruct H as [H|H]; [congruence | exact H].
Qed.

(* no conversion creates or removes whitespace-only values *)
Theorem conv_all_space c v : all_space space_set (conv_fn c v) = all_space space_set v.
Proof.
  destruct c; cbn [conv_fn].
  - apply py_upper_all_space. exact upper_tab_nospace.
  - apply py_lower_all_space; [exact lower_tab_nospace | exact sigma_nospace].
  - apply py_capitalize_all_space; [exact lower_tab_nospace | exact title_tab_nospace | exact sigma_nospace].
Qed.

(* ---- idempotence of the two case filters ---- *)
Theorem kwcase_idem c toks :
  c <> CCapitalize -> kwcase (conv_fn c) (kwcase (conv_fn c) toks) = kwcase (conv_fn c) toks.
Proof. intros H. apply kwcase_idem_gen. intros v. apply conv_idem. left. exact H. Qed.

Theorem kwcase_capitalize_idem_refuted :
  exists toks, kwcase (conv_fn CCapitalize) (kwcase (conv_fn CCapitalize) toks) <> kwcase (conv_fn CCapitalize) toks.
Proof. exists [(T_Keyword, [329%N])]. vm_compute. discriminate. Qed.

Theorem kwcase_capitalize_idem_partial toks :
  (forall ty v, In (ty, v) toks -> tin ty T_Keyword = true -> hd_error v <> Some 329%N) ->
  kwcase (conv_fn CCapitalize) (kwcase (conv_fn CCapitalize) toks) = kwcase (conv_fn CCapitalize) toks.
Proof. intros H. apply kwcase_idem_on. intros ty v Hin Hk. apply conv_idem. right. exact (H ty v Hin Hk). Qed.

Theorem idcase_idem c toks out :
  c <> CCapitalize -> idcase (conv_fn c) toks = Ok out -> idcase (conv_fn c) out = Ok out.
Proof.
  intros H. apply idcase_idem_gen; [intros v; apply conv_idem; left; exact H | apply conv_all_space].
Qed.

Theorem idcase_capitalize_idem_refuted :
  exists toks out, idcase (conv_fn CCapitalize) toks = Ok out /\ idcase (conv_fn CCapitalize) out <> Ok out.
Proof. exists [(T_Name, [329%N])], [(T_Name, [700; 78]%N)]. split; vm_compute; [reflexivity | discriminate]. Qed.

Theorem idcase_capitalize_idem_partial toks out :
  (forall ty v, In (ty, v) toks -> id_converts space_set ty v = true -> hd_error v <> Some 329%N) ->
  idcase (conv_fn CCapitalize) toks = Ok out -> idcase (conv_fn CCapitalize) out = Ok out.
Proof.
  intros H. apply idcase_idem_on; [|apply conv_all_space].
  intros ty v Hin Hc. apply conv_idem. right. exact (H ty v Hin Hc).
Qed.

(* ---- truncate: what is false ---- *)
(* a String.Single value that does not start with a quote (not lexer-producible): the first pass
   manufactures a value starting with two quotes, the second pass then uses the other delimiter rule *)
Theorem truncate_idem_refuted :
  exists toks, truncate 2 [91; 46; 46; 46; 93]%N (truncate 2 [91; 46; 46; 46; 93]%N toks)
               <> truncate 2 [91; 46; 46; 46; 93]%N toks.
Proof. exists [(T_Single, [97; 39; 98; 99; 100; 101; 102]%N)]. vm_compute. discriminate. Qed.

(* N = 0 (format() rejects N <= 1, the filter class does not) with a marker starting with a quote,
   on a well-formed literal 'abc' *)
Theorem truncate_idem_w0_refuted :
  exists toks, singles_quoted toks = true /\
               truncate 0 [39; 120; 121; 122]%N (truncate 0 [39; 120; 121; 122]%N toks)
               <> truncate 0 [39; 120; 121; 122]%N toks.
Proof. exists [(T_Single, [39; 97; 98; 99; 39]%N)]. split; vm_compute; [reflexivity | discriminate]. Qed.

(* the "first N characters" reading fails for a literal whose content starts with an escaped quote:
   '''abcdefgh' (content: 'abcdefgh) with N = 3 gives '''ab[...]'' : only two characters of the
   content after the escaped quote... and an extra closing quote *)
Example truncate_doubled_quote :
  truncate 3 [91; 46; 46; 46; 93]%N [(T_Single, [39; 39; 39; 97; 98; 99; 100; 101; 102; 103; 104; 39]%N)]
  = [(T_Single, [39; 39; 39; 97; 98; 91; 46; 46; 46; 93; 39; 39]%N)].
Proof. vm_compute. reflexivity. Qed.

(* ---- "only the letter case": what can be said ---- *)
Lemma forallb_impl {A} (P Q : A -> bool) l :
  (forall x, P x = true -> Q x = true) -> forallb P l = true -> forallb Q l = true.
Proof.
  intros H. induction l as [|x l IH]; cbn [forallb]; [reflexivity|]. intros E.
  apply andb_true_iff in E as [E1 E2]. rewrite (H x E1), (IH E2). reflexivity.
Qed.

Lemma len1_length m c : len1 m c = true -> length (match ufind c m with Some v => v | None => [c] end) = 1.
Proof. unfold len1. destruct (ufind c m) as [[|a [|b v]]|]; try discriminate; reflexivity. Qed.

Lemma py_upper_length_simple m t : forallb (len1 m) t = true -> length (py_upper m t) = length t.
Proof.
  unfold py_upper. induction t as [|c t IH]; cbn [flat_map forallb length]; [reflexivity|]. intros H.
  apply andb_true_iff in H as [Hc Ht]. rewrite app_length, (len1_length _ _ Hc), (IH Ht). reflexivity.
Qed.

Lemma lower_go_length_simple ltab ci cni t :
  forall st, forallb (len1 ltab) t = true -> length (lower_go ltab ci cni st t) = length t.
Proof.
  induction t as [|c t IH]; intros st H; cbn [lower_go forallb length] in *; [reflexivity|].
  apply andb_true_iff in H as [Hc Ht]. rewrite app_length, (IH _ Ht).
  destruct (N.eqb c SIGMA); [reflexivity|]. unfold low1. rewrite (len1_length _ _ Hc). reflexivity.
Qed.

(* on texts of characters whose three case images are single characters, the conversions preserve
   the length *)
Theorem conv_length_simple c v : forallb simple_char v = true -> length (conv_fn c v) = length v.
Proof.
  intros H. destruct c; cbn [conv_fn].
  - apply py_upper_length_simple. revert H. apply forallb_impl. unfold simple_char. intros x Hx.
    apply andb_true_iff in Hx as [Hx _]. apply andb_true_iff in Hx as [Hx _]. exact Hx.
  - apply lower_go_length_simple. revert H. apply forallb_impl. unfold simple_char. intros x Hx.
    apply andb_true_iff in Hx as [Hx _]. apply andb_true_iff in Hx as [_ Hx]. exact Hx.
  - destruct v as [|a t]; [reflexivity|]. unfold cur_capitalize. cbn [py_capitalize forallb length] in *.
    apply andb_true_iff in H as [Ha Ht]. rewrite app_length.
    unfold simple_char in Ha. apply andb_true_iff in Ha as [_ Ha]. unfold tit1. rewrite (len1_length _ _ Ha).
    rewrite lower_go_length_simple; [reflexivity|]. revert Ht. apply forallb_impl. unfold simple_char. intros x Hx.
    apply andb_true_iff in Hx as [Hx _]. apply andb_true_iff in Hx as [_ Hx]. exact Hx.
Qed.

(* ... and not in general: upper of U+00DF, lower of U+0130, capitalize of U+0149 are two characters *)
Theorem conv_length_refuted : forall c, exists v, length v = 1 /\ length (conv_fn c v) = 2.
Proof.
  intros [| |]; [exists [223%N] | exists [304%N] | exists [329%N]]; split; vm_compute; reflexivity.
Qed.

(* ASCII: character by character the same letter *)
Definition ascii_ok (c : N) : bool :=
  negb (N.eqb c SIGMA) &&
  text_eqb (map ascii_fold (match ufind c upper_tab with Some v => v | None => [c] end)) [ascii_fold c] &&
  text_eqb (map ascii_fold (low1 full_lower_tab c)) [ascii_fold c] &&
  text_eqb (map ascii_fold (tit1 title_tab c)) [ascii_fold c].

Lemma ascii_ok_all : forallb ascii_ok (map N.of_nat (seq 0 128)) = true.
Proof. vm_compute. reflexivity. Qed.

Lemma ascii_ok_of c : ascii c = true -> ascii_ok c = true.
Proof.
  intros H. unfold ascii in H. apply N.ltb_lt in H.
  pose proof ascii_ok_all as A. rewrite forallb_forall in A. apply A.
  rewrite <- (N2Nat.id c). apply in_map. apply in_seq. lia.
Qed.

Lemma map_flat_map_fold (f : N -> text) t :
  (forall c, In c t -> map ascii_fold (f c) = [ascii_fold c]) ->
  map ascii_fold (flat_map f t) = map ascii_fold t.
Proof.
  induction t as [|c t IH]; intros H; cbn [flat_map map]; [reflexivity|].
  rewrite map_app, (H c (or_introl eq_refl)), IH; [reflexivity|]. intros d Hd. apply H. right. exact Hd.
Qed.

Lemma lower_go_ascii t : forall st, forallb ascii t = true ->
  map ascii_fold (lower_go full_lower_tab case_ignorable_set cased_ni_set st t) = map ascii_fold t.
Proof.
  induction t as [|c t IH]; intros st H; cbn [lower_go forallb map] in *; [reflexivity|].
  apply andb_true_iff in H as [Hc Ht]. rewrite map_app, (IH _ Ht).
  pose proof (ascii_ok_of _ Hc) as A. unfold ascii_ok in A.
  apply andb_true_iff in A as [A _]. apply andb_true_iff in A as [A A3]. apply andb_true_iff in A as [A1 _].
  destruct (N.eqb c SIGMA); [discriminate|]. apply text_eqb_eq in A3. rewrite A3. reflexivity.
Qed.

Theorem conv_ascii c v :
  forallb ascii v = true ->
  map ascii_fold (conv_fn c v) = map ascii_fold v /\ length (conv_fn c v) = length v.
Proof.
  intros H. assert (E : map ascii_fold (conv_fn c v) = map ascii_fold v).
  { destruct c; cbn [conv_fn].
    - unfold upper, py_upper. apply map_flat_map_fold. intros d Hd.
      rewrite forallb_forall in H. pose proof (ascii_ok_of _ (H d Hd)) as A. unfold ascii_ok in A.
      apply andb_true_iff in A as [A _]. apply andb_true_iff in A as [A _]. apply andb_true_iff in A as [_ A].
      apply text_eqb_eq in A. exact A.
    - apply lower_go_ascii. exact H.
    - destruct v as [|a t]; [reflexivity|]. unfold cur_capitalize. cbn [py_capitalize forallb map] in *.
      apply andb_true_iff in H as [Ha Ht]. rewrite map_app, (lower_go_ascii _ _ Ht).
      pose proof (ascii_ok_of _ Ha) as A. unfold ascii_ok in A. apply andb_true_iff in A as [_ A].
      apply text_eqb_eq in A. rewrite A. reflexivity. }
  split; [exact E|]. rewrite <- (map_length ascii_fold (conv_fn c v)), E. apply map_length.
Qed.

(* ---- examples: the hypotheses are satisfiable, the functions compute ---- *)
(* select a FROM "t" where x = 'abcdefgh'  (types as the lexer assigns them) *)
Definition ex_toks : list tok :=
  [(T_DML, [115; 101; 108; 101; 99; 116]%N); (T_Whitespace, [32%N]); (T_Name, [97%N]); (T_Whitespace, [32%N]);
   (T_Keyword, [70; 82; 79; 77]%N); (T_Whitespace, [32%N]); (T_Symbol, [34; 116; 34]%N); (T_Whitespace, [32%N]);
   (T_Keyword, [119; 104; 101; 114; 101]%N); (T_Whitespace, [32%N]); (T_Name, [120%N]); (T_Comparison, [61%N]);
   (T_Single, [39; 97; 98; 99; 100; 101; 102; 103; 104; 39]%N)].

Example ex_preprocess :
  preprocess (Some CUpper) (Some CCapitalize) (Some (3%Z, [91; 46; 46; 46; 93]%N)) ex_toks =
  Ok [(T_DML, [83; 69; 76; 69; 67; 84]%N); (T_Whitespace, [32%N]); (T_Name, [65%N]); (T_Whitespace, [32%N]);
      (T_Keyword, [70; 82; 79; 77]%N); (T_Whitespace, [32%N]); (T_Symbol, [34; 116; 34]%N); (T_Whitespace, [32%N]);
      (T_Keyword, [87; 72; 69; 82; 69]%N); (T_Whitespace, [32%N]); (T_Name, [88%N]); (T_Comparison, [61%N]);
      (T_Single, [39; 97; 98; 99; 91; 46; 46; 46; 93; 39]%N)].
Proof. vm_compute. reflexivity. Qed.

Example ex_hyps :
  id_safe space_set ex_toks = true /\ singles_quoted ex_toks = true /\
  forallb (fun t : tok => forallb ascii (snd t) && forallb simple_char (snd t)) ex_toks = true.
Proof. vm_compute. repeat split. Qed.

Example ex_idcase_error : idcase upper [(T_Name, [32; 9]%N)] = Err IndexError.
Proof. vm_compute. reflexivity. Qed.

(* the final sigma rule *)
Example ex_sigma : cur_lower [927; 916; 927; 931; 32; 931; 913; 931]%N = [959; 948; 959; 962; 32; 963; 945; 962]%N.
Proof. vm_compute. reflexivity. Qed.

Print Assumptions kwcase_spec.
Print Assumptions idcase_spec.
Print Assumptions truncate_spec.
Print Assumptions kwcase_types.
Print Assumptions idcase_types.
Print Assumptions truncate_types.
Print Assumptions preprocess_types.
Print Assumptions preprocess_untouched.
Print Assumptions kwcase_idem.
Print Assumptions idcase_idem.
Print Assumptions capitalize_idem_iff.
Print Assumptions kwcase_capitalize_idem_refuted.
Print Assumptions kwcase_capitalize_idem_partial.
Print Assumptions idcase_capitalize_idem_refuted.
Print Assumptions idcase_capitalize_idem_partial.
Print Assumptions truncate_idem.
Print Assumptions trunc_val_plain.
Print Assumptions truncate_singles_quoted.
Print Assumptions truncate_idem_refuted.
Print Assumptions truncate_idem_w0_refuted.
Print Assumptions conv_length_simple.
Print Assumptions conv_length_refuted.
Print Assumptions conv_ascii.
Print Assumptions conv_all_space.
