(* format(sql, reindent=True, ...) over the current tables *)
From SqlModel Require Import Base Node Passes.
From SqlModel.Inst Require Import Cur.
From SqlModel.Filters Require Import RxStripWs RxSerial Reindent ReindentSafe.

Definition cur_reindent_trees (o : ropts) (t : text) : res (list node) :=
  stmts <- cur_split_stream t ;;
  run_stmts group o init_rstate (map statement_of stmts).

Definition cur_reindent (o : ropts) (t : text) : res text :=
  trees <- cur_reindent_trees o t ;; Ok (serialize_all trees).

(* stripws only (debugging / stage-wise correspondence) *)
Definition cur_stripws_trees (t : text) : res (list node) :=
  stmts <- cur_split_stream t ;;
  mapM (fun s => g <- group (statement_of s) ;; stripws_stmt g) stmts.

(* rx_safe of every statement after grouping + StripWhitespaceFilter (statistics) *)
Definition cur_rxsafe (t : text) : res (list bool) :=
  trees <- cur_stripws_trees t ;; Ok (map (rx_safe false false) trees).
