(* Facts about the output_format model (Filters/Output.v). *)
From Coq Require Import ZArith.
From SqlModel Require Import Base PyStr Re Lexer LexFacts Node Passes.
From SqlModel.Gen Require Import CaseTabs KwTabs Rules.
From SqlModel.Inst Require Import Cur C01.
From SqlModel.Filters Require Import TokFilters StripComments RxStripWs RxSerial Reindent Output.

Local Open Scope N_scope.

(* ================================================================================================ *)
(* 1. shape of the emitted token lists                                                               *)
(* ================================================================================================ *)
Lemma py_loop_flat_map vlen stream : py_loop vlen stream = flat_map (py_item vlen) stream.
Proof. induction stream as [|n rest IH]; [reflexivity|]. cbn [py_loop flat_map]. now rewrite IH. Qed.

Lemma php_loop_flat_map vn stream : php_loop vn stream = flat_map (php_item vn) stream.
Proof. induction stream as [|n rest IH]; [reflexivity|]. cbn [php_loop flat_map]. now rewrite IH. Qed.

Lemma py_loop_app vlen a b : py_loop vlen (a ++ b) = py_loop vlen a ++ py_loop vlen b.
Proof. rewrite !py_loop_flat_map. apply flat_map_app. Qed.

Lemma php_loop_app vn a b : php_loop vn (a ++ b) = php_loop vn a ++ php_loop vn b.
Proof. rewrite !php_loop_flat_map. apply flat_map_app. Qed.

(* header / right-hand side decomposition *)
Definition py_head (vn : text) (count : nat) : list node :=
  (if Nat.ltb 1 count then [Leaf T_Whitespace [LF]] else []) ++
  [Leaf T_Name vn; Leaf T_Whitespace [SP]; Leaf T_Operator [61]; Leaf T_Whitespace [SP]].
Definition py_rhs (vlen : nat) (nl : bool) (stream : list node) : list node :=
  (if nl then [Leaf T_Operator [40]] else []) ++ [Leaf T_Text [QUOTE]] ++ py_loop vlen stream ++
  [Leaf T_Text [QUOTE]] ++ (if nl then [Leaf T_Operator [41]] else []).

Lemma output_python_split vn count nl stream :
  output_python vn count nl stream = py_head vn count ++ py_rhs (length vn) nl stream.
Proof. unfold output_python, py_head, py_rhs. now rewrite <- !app_assoc. Qed.

Definition php_head (vn : text) (count : nat) (nl : bool) : list node :=
  (if Nat.ltb 1 count then [Leaf T_Whitespace [LF]] else []) ++
  [Leaf T_Name vn; Leaf T_Whitespace [SP]] ++ (if nl then [Leaf T_Whitespace [SP]] else []) ++
  [Leaf T_Operator [61]; Leaf T_Whitespace [SP]].
Definition php_rhs (vn : text) (stream : list node) : list node :=
  [Leaf T_Text [DQ]] ++ php_loop vn stream ++ [Leaf T_Text [DQ]; Leaf T_Punctuation [59]].

Lemma output_php_split vn count nl stream :
  output_php vn count nl stream = php_head vn count nl ++ php_rhs vn stream.
Proof. unfold output_php, php_head, php_rhs. now rewrite <- !app_assoc. Qed.

Lemma text_of_list_app a b : text_of_list (a ++ b) = text_of_list a ++ text_of_list b.
Proof. apply flat_map_app. Qed.

Lemma py_head_text vn count :
  text_of_list (py_head vn count) = (if Nat.ltb 1 count then [LF] else []) ++ vn ++ [SP; 61; SP].
Proof.
  unfold py_head. rewrite text_of_list_app. destruct (Nat.ltb 1 count); cbn [text_of_list flat_map text_of app];
  rewrite ?app_nil_r; reflexivity.
Qed.

Lemma php_head_text vn count nl :
  text_of_list (php_head vn count nl)
  = (if Nat.ltb 1 count then [LF] else []) ++ vn ++ (if nl then [SP; SP; 61; SP] else [SP; 61; SP]).
Proof.
  unfold php_head. rewrite !text_of_list_app.
  destruct (Nat.ltb 1 count), nl; cbn [text_of_list flat_map text_of app]; rewrite ?app_nil_r, <- ?app_assoc; reflexivity.
Qed.

(* every emitted token is a leaf: the new Statement is flat *)
Definition is_leaf (n : node) : bool := negb (is_group n).

Lemma indent_tok_leaves v : forallb is_leaf (indent_tok v) = true.
Proof. unfold indent_tok. destruct (after_lf v); reflexivity. Qed.

Lemma py_loop_leaves vlen stream : forallb is_leaf (py_loop vlen stream) = true.
Proof.
  induction stream as [|n rest IH]; [reflexivity|].
  cbn [py_loop]. rewrite forallb_app, IH, andb_true_r. unfold py_item.
  destruct (is_break n); [|reflexivity]. rewrite forallb_app, indent_tok_leaves. reflexivity.
Qed.

Lemma php_loop_leaves vn stream : forallb is_leaf (php_loop vn stream) = true.
Proof.
  induction stream as [|n rest IH]; [reflexivity|].
  cbn [php_loop]. rewrite forallb_app, IH, andb_true_r. unfold php_item.
  destruct (is_break n); [|reflexivity]. rewrite forallb_app, indent_tok_leaves. reflexivity.
Qed.

Theorem output_tokens_leaves f count stmt : forallb is_leaf (output_tokens f count stmt) = true.
Proof.
  unfold output_tokens. destruct f.
  - unfold output_python. rewrite !forallb_app, py_loop_leaves.
    destruct (Nat.ltb 1 count), (has_nl stmt); reflexivity.
  - unfold output_php. rewrite !forallb_app, php_loop_leaves.
    destruct (Nat.ltb 1 count), (has_nl stmt); reflexivity.
Qed.

(* ================================================================================================ *)
(* 2. the statement counter                                                                          *)
(* ================================================================================================ *)
Theorem output_all_nth f : forall stmts done i,
  nth_error (output_all f done stmts) i
  = option_map (output_stmt f (S (done + i))) (nth_error stmts i).
Proof.
  induction stmts as [|s rest IH]; intros done i.
  - destruct i; reflexivity.
  - destruct i as [|i]; cbn [output_all nth_error option_map].
    + now rewrite Nat.add_0_r.
    + rewrite IH. now rewrite Nat.add_succ_r.
Qed.

Theorem output_all_length f stmts done : length (output_all f done stmts) = length stmts.
Proof. revert done. induction stmts as [|s rest IH]; intros done; cbn [output_all length]; [reflexivity|now rewrite IH]. Qed.

Lemma varname_first f : varname f 1 = prefix_of f ++ SQL.
Proof. unfold varname. cbn [Nat.ltb Nat.leb]. now rewrite app_nil_r. Qed.

Lemma varname_later f k : varname f (S (S k)) = prefix_of f ++ SQL ++ dec (S (S k)).
Proof. reflexivity. Qed.

(* digits only *)
Definition is_digit (c : N) : bool := N.leb 48 c && N.leb c 57.

Lemma dec_aux_digits : forall fuel n acc,
  forallb is_digit acc = true -> forallb is_digit (dec_aux fuel n acc) = true.
Proof.
  induction fuel as [|f IH]; intros n acc Ha; cbn [dec_aux]; [exact Ha|].
  assert (Hd : forallb is_digit ((48 + n mod 10) :: acc) = true).
  { cbn [forallb]. rewrite Ha, andb_true_r. unfold is_digit.
    assert (Hm : n mod 10 < 10) by (apply N.mod_lt; discriminate).
    set (m := n mod 10) in *. clearbody m.
    apply andb_true_intro; split; apply N.leb_le; lia. }
  destruct (N.ltb n 10); [exact Hd|]. apply IH. exact Hd.
Qed.

Lemma dec_digits n : forallb is_digit (dec n) = true.
Proof. unfold dec. apply dec_aux_digits. reflexivity. Qed.

Example dec_examples :
  dec 2 = [50] /\ dec 10 = [49; 48] /\ dec 123 = [49; 50; 51] /\ dec 1000 = [49; 48; 48; 48].
Proof. vm_compute. repeat split. Qed.

(* the variable name contains no quote of either kind and no line feed *)
Lemma varname_chars f count :
  forallb (fun c => negb (N.eqb c DQ) && negb (N.eqb c QUOTE) && negb (N.eqb c LF)) (varname f count) = true.
Proof.
  unfold varname. rewrite !forallb_app.
  assert (Hdig : forall l, forallb is_digit l = true ->
            forallb (fun c => negb (N.eqb c DQ) && negb (N.eqb c QUOTE) && negb (N.eqb c LF)) l = true).
  { intros l. induction l as [|c l IH]; [reflexivity|]. cbn [forallb]. intros H.
    apply andb_prop in H. destruct H as [Hc Hl]. rewrite (IH Hl), andb_true_r.
    unfold is_digit in Hc. apply andb_prop in Hc. destruct Hc as [H1 H2].
    apply N.leb_le in H1. apply N.leb_le in H2. unfold DQ, QUOTE, LF.
    destruct (N.eqb_spec c 34); [lia|]. destruct (N.eqb_spec c 39); [lia|].
    destruct (N.eqb_spec c 10); [lia|]. reflexivity. }
  destruct f; cbn [prefix_of forallb]; destruct (Nat.ltb 1 count); try rewrite (Hdig _ (dec_digits count));
    reflexivity.
Qed.

(* ================================================================================================ *)
(* 3. what the produced Python source denotes                                                        *)
(* ================================================================================================ *)
Definition none_of (bad : list N) (v : text) : bool :=
  forallb (fun c => negb (existsb (N.eqb c) bad)) v.

(* a value that is copied between the quotes (after escaping the quote): no backslash, no raw line
   end, no NUL;  the indentation copied verbatim after a break: additionally no quote *)
Definition py_clean_item (n : node) : bool :=
  if is_break n then none_of [QUOTE; 92; 10; 13; 0] (after_lf (nvalue n))
  else none_of [92; 10; 13; 0] (nvalue n).
Definition py_clean (stream : list node) : bool := forallb py_clean_item stream.
Definition no_break (stream : list node) : bool := forallb (fun n => negb (is_break n)) stream.

(* decide the comparisons between literal code points *)
Ltac eqb_closed :=
  repeat match goal with
  | |- context [N.eqb ?a ?b] =>
      let r := eval vm_compute in (N.eqb a b) in
      match r with
      | true => change (N.eqb a b) with true
      | false => change (N.eqb a b) with false
      end
  end; cbn [orb andb negb].

(* case split on a comparison of the variable c that the hypothesis H excludes *)
Ltac excl c k H :=
  destruct (N.eqb c k) eqn:?; [cbn [orb andb negb] in H; discriminate H|].

Lemma pydec_escaped dp : forall v rest acc,
  none_of [92; 10; 13; 0] v = true ->
  pydec true dp (escape_q QUOTE v ++ rest) acc = pydec true dp rest (rev v ++ acc).
Proof.
  induction v as [|c v IH]; intros rest acc Hv; [reflexivity|].
  cbn [none_of forallb existsb] in Hv. apply andb_prop in Hv. destruct Hv as [Hc Hv].
  change (rev (c :: v) ++ acc) with ((rev v ++ [c]) ++ acc). rewrite <- (app_assoc (rev v)). cbn [app].
  rewrite <- IH by exact Hv.
  unfold escape_q at 1. cbn [flat_map]. fold (escape_q QUOTE v). rewrite <- app_assoc.
  destruct (N.eqb c QUOTE) eqn:Eq.
  - apply N.eqb_eq in Eq. subst c. cbn [app pydec]. eqb_closed. reflexivity.
  - cbn [app pydec]. rewrite Eq. excl c 92 Hc. excl c 10 Hc. excl c 13 Hc. excl c 0 Hc. reflexivity.
Qed.

Lemma pydec_raw dp : forall v rest acc,
  none_of [QUOTE; 92; 10; 13; 0] v = true ->
  pydec true dp (v ++ rest) acc = pydec true dp rest (rev v ++ acc).
Proof.
  induction v as [|c v IH]; intros rest acc Hv; [reflexivity|].
  cbn [none_of forallb existsb] in Hv. apply andb_prop in Hv. destruct Hv as [Hc Hv].
  change (rev (c :: v) ++ acc) with ((rev v ++ [c]) ++ acc). rewrite <- (app_assoc (rev v)). cbn [app].
  rewrite <- IH by exact Hv.
  cbn [app pydec]. excl c QUOTE Hc. excl c 92 Hc. excl c 10 Hc. excl c 13 Hc. excl c 0 Hc. reflexivity.
Qed.

Lemma pydec_spaces dp : forall k rest acc,
  pydec false dp (repeat SP k ++ rest) acc = pydec false dp rest acc.
Proof.
  induction k as [|k IH]; intros rest acc; [reflexivity|]. cbn [repeat app pydec]. eqb_closed. apply IH.
Qed.

Lemma indent_tok_text v : text_of_list (indent_tok v) = after_lf v.
Proof. unfold indent_tok. destruct (after_lf v); [reflexivity|]. cbn. now rewrite app_nil_r. Qed.

(* a break needs an open parenthesis; any other token is fine at every depth *)
Lemma pydec_item vlen dp n rest acc :
  py_clean_item n = true ->
  (dp = O -> is_break n = false) ->
  pydec true dp (text_of_list (py_item vlen n) ++ rest) acc
  = pydec true dp rest (rev (payload_item n) ++ acc).
Proof.
  unfold py_clean_item, py_item, payload_item. intros H Hd. destruct (is_break n).
  - destruct dp as [|dp]; [discriminate (Hd eq_refl)|].
    rewrite text_of_list_app, indent_tok_text.
    cbn [text_of_list flat_map text_of app]. rewrite ?app_nil_r, <- !app_assoc.
    cbn [app pydec]. eqb_closed. rewrite pydec_spaces. cbn [app pydec]. eqb_closed.
    rewrite pydec_raw by exact H. cbn [rev]. now rewrite <- app_assoc.
  - cbn [text_of_list flat_map text_of]. rewrite app_nil_r. now apply pydec_escaped.
Qed.

Lemma pydec_loop vlen dp : forall stream rest acc,
  py_clean stream = true ->
  (dp = O -> no_break stream = true) ->
  pydec true dp (text_of_list (py_loop vlen stream) ++ rest) acc
  = pydec true dp rest (rev (payload stream) ++ acc).
Proof.
  induction stream as [|n s IH]; intros rest acc H Hd; [reflexivity|].
  cbn [py_clean forallb] in H. apply andb_prop in H. destruct H as [Hn Hs].
  cbn [py_loop payload flat_map]. rewrite text_of_list_app, <- app_assoc.
  rewrite pydec_item; [|exact Hn|].
  - fold (py_clean s) in Hs. rewrite IH; [|exact Hs|].
    + fold (payload s). now rewrite rev_app_distr, <- app_assoc.
    + intros E. specialize (Hd E). cbn [no_break forallb] in Hd. apply andb_prop in Hd. apply Hd.
  - intros E. specialize (Hd E). cbn [no_break forallb] in Hd. apply andb_prop in Hd.
    destruct Hd as [Hb _]. now destruct (is_break n).
Qed.

(* MAIN (python): when no copied value contains a backslash, a raw line end or NUL (and no copied
   indentation a quote), and the right-hand side is parenthesised or has no break token, the literals
   of the right-hand side -- read as Python reads adjacent string literals -- denote exactly
   [payload stream]: the token values in order, each break token replaced by one blank followed by
   its text after the first line feed. *)
Theorem python_rhs_denotes vlen nl stream :
  py_clean stream = true ->
  (nl = false -> no_break stream = true) ->
  pydec false 0 (text_of_list (py_rhs vlen nl stream)) [] = Some (payload stream).
Proof.
  intros H Hnl. unfold py_rhs. rewrite !text_of_list_app.
  destruct nl; cbn [text_of_list flat_map text_of app pydec]; eqb_closed;
    fold (text_of_list (py_loop vlen stream)).
  - rewrite pydec_loop; [|exact H|discriminate]. cbn [app pydec]. eqb_closed.
    rewrite app_nil_r, rev_involutive. reflexivity.
  - rewrite pydec_loop; [|exact H|intros _; now apply Hnl]. cbn [app pydec]. eqb_closed.
    rewrite app_nil_r, rev_involutive. reflexivity.
Qed.
Print Assumptions python_rhs_denotes.

Example python_rhs_denotes_ex :
  let stream := [Leaf T_DML [115;101;108]; Leaf T_Newline [10]; Leaf T_Single [39;105;116;39;39;115;39]] in
  py_clean stream = true /\
  text_of_list (py_rhs 3 true stream)
    = [40;39;115;101;108;32;39;10;32;32;32;32;32;32;32;39;92;39;105;116;92;39;92;39;115;92;39;39;41] /\
  payload stream = [115;101;108;32;39;105;116;39;39;115;39].
Proof. vm_compute. repeat split. Qed.

(* ================================================================================================ *)
(* 4. what the produced PHP source denotes                                                           *)
(* ================================================================================================ *)
Definition php_clean_item (n : node) : bool :=
  if is_break n then none_of [DQ; 92; 36] (after_lf (nvalue n))
  else none_of [92; 36] (nvalue n).
Definition php_clean (stream : list node) : bool := forallb php_clean_item stream.

Lemma phpdec_escaped : forall v rest acc,
  none_of [92; 36] v = true ->
  phpdec true (escape_q DQ v ++ rest) acc = phpdec true rest (rev v ++ acc).
Proof.
  induction v as [|c v IH]; intros rest acc Hv; [reflexivity|].
  cbn [none_of forallb existsb] in Hv. apply andb_prop in Hv. destruct Hv as [Hc Hv].
  change (rev (c :: v) ++ acc) with ((rev v ++ [c]) ++ acc). rewrite <- (app_assoc (rev v)). cbn [app].
  rewrite <- IH by exact Hv.
  unfold escape_q at 1. cbn [flat_map]. fold (escape_q DQ v). rewrite <- app_assoc.
  destruct (N.eqb c DQ) eqn:Eq.
  - apply N.eqb_eq in Eq. subst c. cbn [app phpdec]. eqb_closed. reflexivity.
  - cbn [app phpdec]. rewrite Eq. excl c 92 Hc. excl c 36 Hc. reflexivity.
Qed.

Lemma phpdec_raw : forall v rest acc,
  none_of [DQ; 92; 36] v = true ->
  phpdec true (v ++ rest) acc = phpdec true rest (rev v ++ acc).
Proof.
  induction v as [|c v IH]; intros rest acc Hv; [reflexivity|].
  cbn [none_of forallb existsb] in Hv. apply andb_prop in Hv. destruct Hv as [Hc Hv].
  change (rev (c :: v) ++ acc) with ((rev v ++ [c]) ++ acc). rewrite <- (app_assoc (rev v)). cbn [app].
  rewrite <- IH by exact Hv.
  cbn [app phpdec]. excl c DQ Hc. excl c 92 Hc. excl c 36 Hc. reflexivity.
Qed.

Lemma phpdec_skip : forall w rest acc,
  none_of [DQ] w = true -> phpdec false (w ++ rest) acc = phpdec false rest acc.
Proof.
  induction w as [|c w IH]; intros rest acc Hw; [reflexivity|].
  cbn [none_of forallb existsb] in Hw. apply andb_prop in Hw. destruct Hw as [Hc Hw].
  cbn [app phpdec]. excl c DQ Hc. now apply IH.
Qed.

Lemma phpdec_item vn n rest acc :
  none_of [DQ] vn = true ->
  php_clean_item n = true ->
  phpdec true (text_of_list (php_item vn n) ++ rest) acc = phpdec true rest (rev (payload_item n) ++ acc).
Proof.
  unfold php_clean_item, php_item, payload_item. intros Hvn H. destruct (is_break n).
  - rewrite text_of_list_app, indent_tok_text.
    cbn [text_of_list flat_map text_of app]. rewrite ?app_nil_r, <- !app_assoc.
    cbn [app phpdec]. eqb_closed. rewrite phpdec_skip by exact Hvn. cbn [app phpdec]. eqb_closed.
    rewrite phpdec_raw by exact H. cbn [rev]. now rewrite <- app_assoc.
  - cbn [text_of_list flat_map text_of]. rewrite app_nil_r. now apply phpdec_escaped.
Qed.

Lemma phpdec_loop vn : forall stream rest acc,
  none_of [DQ] vn = true ->
  php_clean stream = true ->
  phpdec true (text_of_list (php_loop vn stream) ++ rest) acc = phpdec true rest (rev (payload stream) ++ acc).
Proof.
  induction stream as [|n s IH]; intros rest acc Hvn H; [reflexivity|].
  cbn [php_clean forallb] in H. apply andb_prop in H. destruct H as [Hn Hs].
  cbn [php_loop payload flat_map]. rewrite text_of_list_app, <- app_assoc.
  rewrite phpdec_item by assumption. fold (php_clean s) in Hs. rewrite IH by assumption.
  fold (payload s). now rewrite rev_app_distr, <- app_assoc.
Qed.

(* MAIN (php): when no copied value contains a backslash or a dollar sign (and no copied indentation a
   double quote), the double-quoted literals of `$v = "..."; $v .= "..."; ...` denote, concatenated,
   exactly [payload stream]. *)
Theorem php_rhs_denotes vn stream :
  none_of [DQ] vn = true ->
  php_clean stream = true ->
  phpdec false (text_of_list (php_rhs vn stream)) [] = Some (payload stream).
Proof.
  intros Hvn H. unfold php_rhs. rewrite !text_of_list_app.
  cbn [text_of_list flat_map text_of app phpdec]. eqb_closed.
  fold (text_of_list (php_loop vn stream)).
  rewrite phpdec_loop by assumption. cbn [app phpdec]. eqb_closed.
  rewrite app_nil_r, rev_involutive. reflexivity.
Qed.
Print Assumptions php_rhs_denotes.

Lemma varname_no_dq f count : none_of [DQ] (varname f count) = true.
Proof.
  pose proof (varname_chars f count) as H. unfold none_of.
  rewrite forallb_forall in H. apply forallb_forall. intros c Hc. specialize (H c Hc).
  cbn [existsb]. rewrite orb_false_r.
  apply andb_prop in H. destruct H as [H _]. apply andb_prop in H. destruct H as [H _]. exact H.
Qed.

(* the two theorems for the token list the filter emits: header text ++ a right-hand side that
   denotes the payload of the statement's children *)
Theorem output_tokens_python count stmt :
  py_clean (nkids stmt) = true ->
  (has_nl stmt = false -> no_break (nkids stmt) = true) ->
  exists rhs,
    text_of_list (output_tokens OPython count stmt)
      = (if Nat.ltb 1 count then [LF] else []) ++ varname OPython count ++ [SP; 61; SP] ++ rhs
    /\ pydec false 0 rhs [] = Some (payload (nkids stmt)).
Proof.
  intros H Hnl. unfold output_tokens. rewrite output_python_split, text_of_list_app, py_head_text.
  eexists. split; [rewrite <- !app_assoc; reflexivity|]. now apply python_rhs_denotes.
Qed.

Theorem output_tokens_php count stmt :
  php_clean (nkids stmt) = true ->
  exists rhs,
    text_of_list (output_tokens OPhp count stmt)
      = (if Nat.ltb 1 count then [LF] else []) ++ varname OPhp count
        ++ (if has_nl stmt then [SP; SP; 61; SP] else [SP; 61; SP]) ++ rhs
    /\ phpdec false rhs [] = Some (payload (nkids stmt)).
Proof.
  intros H. unfold output_tokens. rewrite output_php_split, text_of_list_app, php_head_text.
  eexists. split; [rewrite <- !app_assoc; reflexivity|].
  apply php_rhs_denotes; [apply varname_no_dq|exact H].
Qed.
Print Assumptions output_tokens_python.
Print Assumptions output_tokens_php.

(* ================================================================================================ *)
(* 5. payload versus the text of the statement                                                       *)
(* ================================================================================================ *)
Lemma leaves_value_text stream :
  forallb is_leaf stream = true -> flat_map nvalue stream = text_of_list stream.
Proof.
  induction stream as [|n s IH]; [reflexivity|]. cbn [forallb]. intros H.
  apply andb_prop in H. destruct H as [Hn Hs]. cbn [flat_map text_of_list]. fold (text_of_list s).
  rewrite (IH Hs). destruct n; [reflexivity|discriminate Hn].
Qed.

(* no break token: the denoted string is the concatenation of the values *)
Theorem payload_no_break stream :
  forallb (fun n => negb (is_break n)) stream = true -> payload stream = flat_map nvalue stream.
Proof.
  induction stream as [|n s IH]; [reflexivity|]. cbn [forallb]. intros H.
  apply andb_prop in H. destruct H as [Hn Hs]. cbn [payload flat_map]. fold (payload s).
  rewrite (IH Hs). unfold payload_item. destruct (is_break n); [discriminate Hn|reflexivity].
Qed.

(* up to white space: delete every character c with c.isspace() *)
Definition squash (t : text) : text := filter (fun c => negb (cmem c space_set)) t.

Lemma squash_app a b : squash (a ++ b) = squash a ++ squash b.
Proof. apply filter_app. Qed.

Lemma squash_all_space v : all_space space_set v = true -> squash v = [].
Proof.
  induction v as [|c v IH]; [reflexivity|]. cbn [all_space forallb]. intros H.
  apply andb_prop in H. destruct H as [Hc Hv]. cbn [squash filter]. rewrite Hc. cbn [negb]. now apply IH.
Qed.

Lemma after_lf_all_space v : all_space space_set v = true -> all_space space_set (after_lf v) = true.
Proof.
  induction v as [|c v IH]; [reflexivity|]. cbn [all_space forallb]. intros H.
  apply andb_prop in H. destruct H as [Hc Hv]. cbn [after_lf]. destruct (N.eqb c 10); [exact Hv|now apply IH].
Qed.

(* when the break tokens consist of white space (they are whitespace-typed tokens: true of whatever
   the lexer and the modelled filters produce), the denoted string equals the concatenated values
   up to white space *)
Theorem payload_squash stream :
  forallb (fun n => implb (is_break n) (all_space space_set (nvalue n))) stream = true ->
  squash (payload stream) = squash (flat_map nvalue stream).
Proof.
  induction stream as [|n s IH]; [reflexivity|]. cbn [forallb]. intros H.
  apply andb_prop in H. destruct H as [Hn Hs]. cbn [payload flat_map]. fold (payload s).
  rewrite !squash_app, (IH Hs). f_equal. unfold payload_item.
  destruct (is_break n); [|reflexivity]. cbn [implb] in Hn.
  rewrite (squash_all_space _ Hn).
  change (SP :: after_lf (nvalue n)) with ([SP] ++ after_lf (nvalue n)).
  rewrite squash_app, (squash_all_space _ (after_lf_all_space _ Hn)). reflexivity.
Qed.

(* without grouping the children are the leaves the splitter put into the statement *)
Lemma statement_of_kids toks :
  nkids (statement_of toks) = map (fun tk => Leaf (fst tk) (snd tk)) toks.
Proof. reflexivity. Qed.

Lemma statement_of_values toks : flat_map nvalue (nkids (statement_of toks)) = flat_map snd toks.
Proof.
  rewrite statement_of_kids. induction toks as [|tk toks IH]; [reflexivity|].
  cbn [map flat_map nvalue]. now rewrite IH.
Qed.

Lemma statement_of_text toks : text_of (statement_of toks) = flat_map snd toks.
Proof.
  unfold statement_of, mk_grp. cbn [text_of].
  induction toks as [|tk toks IH]; [reflexivity|]. cbn [map flat_map text_of]. now rewrite IH.
Qed.

(* output_format alone: up to white space the literals denote the statement text *)
Theorem payload_statement_text toks :
  Forall (fun tk => tin (fst tk) T_Whitespace = true -> all_space space_set (snd tk) = true) toks ->
  squash (payload (nkids (statement_of toks))) = squash (text_of (statement_of toks)).
Proof.
  intros H. rewrite payload_squash.
  - now rewrite statement_of_values, statement_of_text.
  - rewrite statement_of_kids. apply forallb_forall. intros n Hn.
    apply in_map_iff in Hn. destruct Hn as (tk & <- & Hin).
    rewrite Forall_forall in H. specialize (H tk Hin).
    unfold is_break, is_ws, tt_in. cbn [nvalue].
    destruct (tin (fst tk) T_Whitespace); [|reflexivity].
    rewrite (H eq_refl). now destruct (has_lf (snd tk)).
Qed.
Print Assumptions payload_statement_text.

(* ================================================================================================ *)
(* 6. totality; the output filter adds no exception                                                  *)
(* ================================================================================================ *)
Theorem cur_format_out_total f t : exists s, cur_format_out f t = Ok s.
Proof.
  destruct (lex_total_lossless lower upper sql_regex kws cur_rules_wide t) as (toks & E & _).
  unfold cur_format_out, cur_split_stream, cur_lex. rewrite E. cbn [bind]. eexists. reflexivity.
Qed.
Print Assumptions cur_format_out_total.

Definition set_out (o : fopts) (f : option ofmt) : fopts :=
  {| f_kw := f_kw o; f_idc := f_idc o; f_trunc := f_trunc o; f_sc := f_sc o; f_sw := f_sw o;
     f_ri := f_ri o; f_out := f |}.

(* None = returned normally, Some e = raised e *)
Definition status {A} (r : res A) : option exn := match r with Ok _ => None | Err e => Some e end.

Lemma status_bind {A B} (m : res A) (k1 k2 : A -> res B) :
  (forall a, m = Ok a -> status (k1 a) = status (k2 a)) -> status (bind m k1) = status (bind m k2).
Proof. destruct m as [a|e]; cbn [bind]; intros H; [now apply H|reflexivity]. Qed.

Lemma stmt_pipeline_set_out o f s st : stmt_pipeline (set_out o f) s st = stmt_pipeline o s st.
Proof. reflexivity. Qed.

(* whether (and what) reindent raises, and the line-feed state it passes on, do not depend on the
   remembered previous statement *)
Lemma reindent_stmt_last ro s1 s2 w :
  r_lf s1 = r_lf s2 ->
  match reindent_stmt ro s1 w, reindent_stmt ro s2 w with
  | Ok (s1', _), Ok (s2', _) => r_lf s1' = r_lf s2'
  | Err e1, Err e2 => e1 = e2
  | _, _ => False
  end.
Proof.
  intros H. unfold reindent_stmt. rewrite H.
  destruct (rprocess (S (depth w)) ro (init_env ro) false false [] (r_lf s2) w) as [[lf' n1]|e];
    cbn [bind]; reflexivity.
Qed.

Lemma stmt_pipeline_last o s1 s2 st :
  r_lf s1 = r_lf s2 ->
  match stmt_pipeline o s1 st, stmt_pipeline o s2 st with
  | Ok (s1', _), Ok (s2', _) => r_lf s1' = r_lf s2'
  | Err e1, Err e2 => e1 = e2
  | _, _ => False
  end.
Proof.
  intros H. unfold stmt_pipeline.
  destruct (if f_grouping o then group st else Ok st) as [g|e]; cbn [bind]; [|reflexivity].
  destruct (if f_sc o then strip_comments g else Ok g) as [c|e]; cbn [bind]; [|reflexivity].
  destruct (if f_sw o || match f_ri o with Some _ => true | None => false end then stripws_stmt c else Ok c)
    as [w|e]; cbn [bind]; [|reflexivity].
  destruct (f_ri o) as [ro|]; [now apply reindent_stmt_last|exact H].
Qed.

Lemma fmt_stmts_status o f1 f2 : forall stmts s1 s2 d,
  r_lf s1 = r_lf s2 ->
  status (fmt_stmts (set_out o f1) s1 d stmts) = status (fmt_stmts (set_out o f2) s2 d stmts).
Proof.
  induction stmts as [|st rest IH]; intros s1 s2 d H; [reflexivity|].
  cbn [fmt_stmts]. rewrite !stmt_pipeline_set_out.
  pose proof (stmt_pipeline_last o s1 s2 st H) as P.
  destruct (stmt_pipeline o s1 st) as [[s1' n1]|e1], (stmt_pipeline o s2 st) as [[s2' n2]|e2];
    cbn [bind]; try contradiction; [|now subst].
  match goal with
  | |- status (bind (fmt_stmts _ ?a _ _) _) = status (bind (fmt_stmts _ ?b _ _) _) =>
      assert (E : r_lf a = r_lf b)
  end.
  { cbn [f_out set_out]. destruct f1, f2, (r_last s1'), (r_last s2'); cbn [r_lf]; exact P. }
  specialize (IH _ _ (S d) E).
  match goal with
  | |- status (bind ?x _) = status (bind ?y _) => destruct x, y; cbn [status bind] in *; congruence
  end.
Qed.

(* C07 for this slice: adding output_format='python'|'php' to an option set never changes WHETHER
   format() raises nor WHAT it raises *)
Theorem output_adds_no_exception o f t :
  status (cur_format (set_out o (Some f)) t) = status (cur_format (set_out o None) t).
Proof.
  unfold cur_format. apply status_bind. intros toks _. cbn [f_kw f_idc f_trunc set_out].
  apply status_bind. intros toks' _.
  pose proof (fmt_stmts_status o (Some f) None (map statement_of (cur_process toks')) init_rstate init_rstate 0 eq_refl) as H.
  destruct (fmt_stmts (set_out o (Some f)) init_rstate 0 (map statement_of (cur_process toks'))),
           (fmt_stmts (set_out o None) init_rstate 0 (map statement_of (cur_process toks')));
    cbn [status bind] in *; congruence.
Qed.
Print Assumptions output_adds_no_exception.

(* the specialised pipeline is the general one *)
Theorem cur_format_out_is_cur_format f t : cur_format (out_only f) t = cur_format_out f t.
Proof.
  unfold cur_format, cur_format_out, cur_split_stream, out_only. cbn [f_kw f_idc f_trunc preprocess].
  destruct (cur_lex t) as [toks|e]; cbn [bind]; [|reflexivity].
  assert (E : forall stmts s d,
            fmt_stmts {| f_kw := None; f_idc := None; f_trunc := None; f_sc := false; f_sw := false;
                         f_ri := None; f_out := Some f |} s d stmts = Ok (output_all f d stmts)).
  { induction stmts as [|st rest IH]; intros s d; [reflexivity|].
    cbn [fmt_stmts stmt_pipeline f_grouping f_sc f_sw f_ri f_out orb bind output_all].
    destruct (r_last s); rewrite IH; reflexivity. }
  change (preprocess None None None toks) with (Ok toks). cbn [bind].
  rewrite E. reflexivity.
Qed.

(* ================================================================================================ *)
(* 7. has_nl: parenthesised (python) / two blanks (php) iff the stripped text contains a line boundary *)
(* ================================================================================================ *)
Lemma linebreak_is_space c : is_linebreak c = true -> cmem c space_set = true.
Proof.
  intros H. unfold is_linebreak in H.
  rewrite !orb_true_iff, !andb_true_iff, !N.leb_le, !N.eqb_eq in H.
  assert (D : c = 10 \/ c = 11 \/ c = 12 \/ c = 13 \/ c = 28 \/ c = 29 \/ c = 30 \/ c = 133
              \/ c = 8232 \/ c = 8233) by lia.
  repeat (destruct D as [->|D]; [vm_compute; reflexivity|]). subst c. vm_compute. reflexivity.
Qed.

Lemma splitlines_aux_nobreak : forall t cur,
  existsb is_linebreak t = false ->
  splitlines_aux t cur = match rev cur ++ t with [] => [] | l => [l] end.
Proof.
  induction t as [|c t IH]; intros cur H.
  - cbn [splitlines_aux]. rewrite app_nil_r. destruct cur as [|x cur]; [reflexivity|].
    destruct (rev (x :: cur)) eqn:E; [|reflexivity].
    apply (f_equal (@length N)) in E. rewrite rev_length in E. discriminate E.
  - cbn [existsb] in H. apply orb_false_elim in H. destruct H as [Hc Ht].
    cbn [splitlines_aux].
    assert (E13 : N.eqb c 13 = false).
    { destruct (N.eqb_spec c 13) as [->|]; [discriminate Hc|reflexivity]. }
    rewrite E13, Hc, (IH _ Ht). cbn [rev]. now rewrite <- app_assoc.
Qed.

Lemma splitlines_aux_nonempty : forall t cur,
  (t = [] -> cur <> []) -> (1 <= length (splitlines_aux t cur))%nat.
Proof.
  induction t as [|c t IH]; intros cur H.
  - cbn [splitlines_aux]. destruct cur; [now elim H|]. cbn [length]. lia.
  - cbn [splitlines_aux]. destruct (N.eqb c 13).
    + destruct t as [|d t']; [cbn [length]; lia|]. destruct (N.eqb d 10); cbn [length]; lia.
    + destruct (is_linebreak c); [cbn [length]; lia|]. apply IH. intros _. discriminate.
Qed.

Lemma splitlines_aux_two : forall t cur,
  existsb is_linebreak t = true -> is_linebreak (last t 0) = false ->
  (2 <= length (splitlines_aux t cur))%nat.
Proof.
  induction t as [|c t IH]; intros cur H L; [discriminate H|].
  cbn [splitlines_aux].
  assert (Hne : is_linebreak c = true -> t <> []).
  { intros Hc ->. cbn [last] in L. congruence. }
  destruct (N.eqb_spec c 13) as [->|Hn13].
  - destruct t as [|d t']; [now elim (Hne eq_refl)|].
    destruct (N.eqb_spec d 10) as [->|Hd].
    + cbn [length].
      assert (t' <> []). { intros ->. cbn [last] in L. discriminate L. }
      pose proof (splitlines_aux_nonempty t' [] ltac:(intros; contradiction)). lia.
    + cbn [length].
      pose proof (splitlines_aux_nonempty (d :: t') [] ltac:(intros; discriminate)). lia.
  - destruct (is_linebreak c) eqn:Hc.
    + cbn [length]. specialize (Hne eq_refl).
      pose proof (splitlines_aux_nonempty t [] ltac:(intros; contradiction)). lia.
    + cbn [existsb] in H. rewrite Hc in H. cbn [orb] in H.
      apply IH; [exact H|]. destruct t as [|d t']; [discriminate H|exact L].
Qed.

Lemma lstrip_head sp : forall t,
  match lstrip sp t with [] => True | c :: _ => cmem c sp = false end.
Proof.
  induction t as [|c t IH]; [exact I|]. cbn [lstrip]. destruct (cmem c sp) eqn:E; [exact IH|exact E].
Qed.

Lemma last_rev {A} (l : list A) d : last (rev l) d = hd d l.
Proof. destruct l as [|x l]; [reflexivity|]. cbn [rev hd]. apply last_last. Qed.

Theorem has_nl_text_spec t :
  has_nl_text t = existsb is_linebreak (strip space_set t).
Proof.
  unfold has_nl_text, splitlines. set (s := strip space_set t).
  destruct (existsb is_linebreak s) eqn:E.
  - apply Nat.ltb_lt.
    assert (L : is_linebreak (last s 0) = false).
    { unfold s, strip, rstrip. rewrite last_rev.
      pose proof (lstrip_head space_set (rev (lstrip space_set t))) as Hh.
      destruct (lstrip space_set (rev (lstrip space_set t))) as [|c r] eqn:El; [reflexivity|].
      cbn [hd]. destruct (is_linebreak c) eqn:Hc; [|reflexivity].
      apply linebreak_is_space in Hc. congruence. }
    pose proof (splitlines_aux_two s [] E L). lia.
  - rewrite (splitlines_aux_nobreak s [] E). cbn [rev app]. destruct s; reflexivity.
Qed.
Print Assumptions has_nl_text_spec.

Example has_nl_examples :
  has_nl_text [97; 10; 98] = true /\ has_nl_text [10; 97; 10] = false /\ has_nl_text [97; 13; 10; 98] = true
  /\ has_nl_text [97; 133; 98] = true /\ has_nl_text [] = false.
Proof. vm_compute. repeat split. Qed.

(* ================================================================================================ *)
(* 8. statements that do NOT hold (witnesses)                                                        *)
(* ================================================================================================ *)
(* (a) backslashes are not escaped: the SQL literal '\\' (two backslashes) is read back with one;
       a token ending in a backslash swallows the closing quote *)
Theorem python_backslash_refuted :
  (exists stream, forallb is_leaf stream = true /\ forallb (fun n => negb (is_break n)) stream = true /\
     exists r, pydec false 0 (text_of_list (py_rhs 3 false stream)) [] = Some r /\ r <> payload stream)
  /\ (exists stream, forallb is_leaf stream = true /\
        pydec false 0 (text_of_list (py_rhs 3 false stream)) [] = None).
Proof.
  split.
  - exists [Leaf T_Single [39; 92; 92; 39]]. repeat split. eexists. split; [vm_compute; reflexivity|].
    vm_compute. discriminate.
  - exists [Leaf T_Error [92]]. split; reflexivity.
Qed.

(* (b) a token that is not white space but contains a line end (a `-- comment\n` token, a multi-line
       comment or literal) puts a raw line end into the literal *)
Lemma raw_newline_run :
  cur_format_out OPython [49; 32; 45; 45; 99; 10; 50]            (* "1 --c\n2" *)
  = Ok [115;113;108;32;61;32;40;39;49;32;45;45;99;10;50;39;41].   (* sql = ('1 --c\n2') *)
Proof. vm_compute. reflexivity. Qed.
Lemma raw_newline_dec :
  pydec false 0 (skipn 6 [115;113;108;32;61;32;40;39;49;32;45;45;99;10;50;39;41]) [] = None.
Proof. vm_compute. reflexivity. Qed.

Theorem python_raw_newline_refuted :
  exists t s, cur_format_out OPython t = Ok s /\ pydec false 0 (skipn 6 s) [] = None.
Proof. eexists. eexists. exact (conj raw_newline_run raw_newline_dec). Qed.

(* (c) the parentheses are decided from the STRIPPED text, the line breaks from the tokens: a
       statement that begins or ends with a line feed is continued on a second line without
       parentheses:   sql = 'select 1 '\n      ''   *)
Lemma paren_run :
  cur_format_out OPython [115;101;108;101;99;116;32;49;10]
  = Ok [115;113;108;32;61;32;39;115;101;108;101;99;116;32;49;32;39;10;32;32;32;32;32;32;32;39;39].
Proof. vm_compute. reflexivity. Qed.
Lemma paren_lf :
  existsb (N.eqb 10) [115;113;108;32;61;32;39;115;101;108;101;99;116;32;49;32;39;10;32;32;32;32;32;32;32;39;39] = true.
Proof. vm_compute. reflexivity. Qed.
Lemma paren_none :
  existsb (N.eqb 40) [115;113;108;32;61;32;39;115;101;108;101;99;116;32;49;32;39;10;32;32;32;32;32;32;32;39;39] = false.
Proof. vm_compute. reflexivity. Qed.

Theorem python_paren_refuted :
  exists t s, cur_format_out OPython t = Ok s
              /\ existsb (N.eqb 10) s = true /\ existsb (N.eqb 40) s = false.
Proof. eexists. eexists. exact (conj paren_run (conj paren_lf paren_none)). Qed.

(* the same on the level of the filter: a break token in a statement whose has_nl is false *)
Theorem has_nl_break_refuted :
  exists stmt, has_nl stmt = false /\ existsb is_break (nkids stmt) = true.
Proof.
  exists (statement_of [(T_Integer, [49]); (T_Newline, [10])]). split; vm_compute; reflexivity.
Qed.

(* (d) with grouping the filter copies the CACHED value of a top-level group: what the statement
       filters changed inside the group is lost.  strip_comments + python on "(1/*c*/)":  the
       comment is still there;  reindent + python: the line breaks inside the Where group are lost *)
Definition opts_sc (f : option ofmt) : fopts :=
  {| f_kw := None; f_idc := None; f_trunc := None; f_sc := true; f_sw := false; f_ri := None; f_out := f |}.
Definition ropts_default : ropts :=
  {| o_width := 2; o_tab := false; o_wrap := 0; o_comma_first := false; o_after_first := false;
     o_columns := false; o_compact := false |}.
Definition opts_ri (f : option ofmt) : fopts :=
  {| f_kw := None; f_idc := None; f_trunc := None; f_sc := false; f_sw := false;
     f_ri := Some ropts_default; f_out := f |}.

(* "(1/*c*/)" *)
Lemma stale_sc_plain : cur_format (opts_sc None) [40;49;47;42;99;42;47;41] = Ok [40;49;32;41].
Proof. vm_compute. reflexivity. Qed.
Lemma stale_sc_python :
  cur_format (opts_sc (Some OPython)) [40;49;47;42;99;42;47;41]
  = Ok [115;113;108;32;61;32;39;40;49;47;42;99;42;47;41;39].
Proof. vm_compute. reflexivity. Qed.
(* "a where c and d" *)
Lemma stale_ri_plain :
  cur_format (opts_ri None) [97;32;119;104;101;114;101;32;99;32;97;110;100;32;100]
  = Ok [97;10;119;104;101;114;101;32;99;10;32;32;97;110;100;32;100].
Proof. vm_compute. reflexivity. Qed.
Lemma stale_ri_python :
  cur_format (opts_ri (Some OPython)) [97;32;119;104;101;114;101;32;99;32;97;110;100;32;100]
  = Ok [115;113;108;32;61;32;40;39;97;32;119;104;101;114;101;32;99;32;97;110;100;32;100;39;41].
Proof. vm_compute. reflexivity. Qed.

(* "the literals denote the formatted statement" is false with grouping: *)
Theorem stale_group_value_refuted :
  exists o t s s', cur_format (set_out o None) t = Ok s /\ cur_format (set_out o (Some OPython)) t = Ok s'
                   /\ squash (match pydec false 0 (skipn 6 s') [] with Some r => r | None => [] end) <> squash s.
Proof.
  exists (opts_sc None), [40;49;47;42;99;42;47;41]. eexists. eexists.
  split; [exact stale_sc_plain|]. split; [exact stale_sc_python|].
  vm_compute. discriminate.
Qed.

(* (e) the counter: statements 1, 2, 3 of one call are sql, sql2, sql3 (php: $sql, $sql2, ...) *)
Example counter_example :
  cur_format_out OPhp [97; 59; 98; 59; 99]
  = Ok [36;115;113;108;32;61;32;34;97;59;34;59;10;
        36;115;113;108;50;32;61;32;34;98;59;34;59;10;
        36;115;113;108;51;32;61;32;34;99;34;59].
Proof. vm_compute. reflexivity. Qed.

(* output_adds_no_exception had a non-vacuity example until the fix of finding C07-RX-1:
   format('(as)', strip_whitespace=True[, output_format='php']) raised IndexError with and without output_format.
   No input on which this option slice raises is known any more; the same input now returns, with and without. *)
Definition opts_sw (f : option ofmt) : fopts :=
  {| f_kw := None; f_idc := None; f_trunc := None; f_sc := false; f_sw := true; f_ri := None; f_out := f |}.
Example returns_with_output : status (cur_format (set_out (opts_sw None) (Some OPhp)) [40; 97; 115; 41]) = None.
Proof. vm_compute. reflexivity. Qed.
Example returns_without_output : cur_format (set_out (opts_sw None) None) [40; 97; 115; 41] = Ok [40; 97; 115; 41]%N.
Proof. vm_compute. reflexivity. Qed.

(* non-vacuity of php_rhs_denotes:  a "b" <LF> c   ->   "a \"b\" ";\n$sql .= "c";  *)
Example php_rhs_denotes_ex :
  let stream := [Leaf T_Name [97]; Leaf T_Whitespace [32]; Leaf T_Symbol [34; 98; 34]; Leaf T_Newline [10]; Leaf T_Name [99]] in
  php_clean stream = true /\
  text_of_list (php_rhs [36;115;113;108] stream)
    = [34;97;32;92;34;98;92;34;32;34;59;10;36;115;113;108;32;46;61;32;34;99;34;59] /\
  payload stream = [97;32;34;98;34;32;99].
Proof. vm_compute. repeat split. Qed.
