(* Model of sqlparse.filters.output (OutputFilter / OutputPythonFilter / OutputPHPFilter) and of the
   complete format() pipeline for the option sets whose filters are modelled
   (keyword_case, identifier_case, truncate_strings/truncate_char, strip_comments, strip_whitespace,
   reindent + its sub-options, output_format).   Definitions only.

   What the code does (not what one would expect):
   * _process iterates over stmt.tokens, the TOP-LEVEL children of the statement, not over the
     flattened leaves.  Without grouping (output_format alone, or with the token filters only) the
     children are the leaves.  With grouping a child may be a group; a group is never whitespace and
     its `value` is the text cached when the group was created or last extended -- the changes the
     statement filters made inside the group are NOT in it ([nvalue] of [Grp] = the cached text).
   * has_nl is computed from str(stmt) (the current leaves), with str.strip()/str.splitlines().
   * the counter lives in the filter object: one object per format() call, so statement k (from 1)
     of the call is `sql`, `sql2`, `sql3` ...                                                    *)
From Coq Require Import ZArith.
From SqlModel Require Import Base PyStr Node Passes.
From SqlModel.Gen Require Import CaseTabs.
From SqlModel.Inst Require Import Cur.
From SqlModel.Filters Require Import TokFilters StripComments RxStripWs RxSerial Reindent.

Inductive ofmt := OPython | OPhp.

(* ---- str.splitlines() (keepends=False) --------------------------------------------------- *)
(* the line boundaries of str.splitlines: \n \v \f \r \x1c \x1d \x1e \x85     (and \r\n) *)
Definition is_linebreak (c : N) : bool :=
  (N.leb 10 c && N.leb c 13) || (N.leb 28 c && N.leb c 30) || N.eqb c 133 || N.eqb c 8232 || N.eqb c 8233.

(* [cur] = the current line, reversed *)
Fixpoint splitlines_aux (t : text) (cur : text) : list text :=
  match t with
  | [] => match cur with [] => [] | _ => [rev cur] end
  | c :: t' =>
      if N.eqb c 13 then
        match t' with
        | d :: t'' => if N.eqb d 10 then rev cur :: splitlines_aux t'' []
                      else rev cur :: splitlines_aux t' []
        | [] => rev cur :: splitlines_aux t' []
        end
      else if is_linebreak c then rev cur :: splitlines_aux t' []
      else splitlines_aux t' (c :: cur)
  end.
Definition splitlines (t : text) : list text := splitlines_aux t [].

(* has_nl = len(str(stmt).strip().splitlines()) > 1 *)
Definition has_nl_text (t : text) : bool := Nat.ltb 1 (length (splitlines (strip space_set t))).
Definition has_nl (stmt : node) : bool := has_nl_text (text_of stmt).

(* ---- str(count) and the variable name --------------------------------------------------------- *)
Fixpoint dec_aux (fuel : nat) (n : N) (acc : text) : text :=
  match fuel with
  | O => acc
  | S f =>
      let acc' := (48 + N.modulo n 10)%N :: acc in
      if N.ltb n 10 then acc' else dec_aux f (N.div n 10) acc'
  end.
Definition dec (n : nat) : text := dec_aux (S n) (N.of_nat n) [].

Definition SQL : text := [115; 113; 108]%N.             (* 'sql' *)
Definition prefix_of (f : ofmt) : text := match f with OPython => [] | OPhp => [36%N] end.   (* '$' *)
(* count is the value of self.count AFTER the increment (the first statement has count 1) *)
Definition varname (f : ofmt) (count : nat) : text :=
  prefix_of f ++ SQL ++ (if Nat.ltb 1 count then dec count else []).

(* ---- pieces of the loop body -------------------------------------------------------------------- *)
Definition has_lf (v : text) : bool := existsb (N.eqb 10) v.
(* value.split('\n', 1)[1]  (only used when '\n' in value) *)
Fixpoint after_lf (v : text) : text :=
  match v with
  | [] => []
  | c :: v' => if N.eqb c 10 then v' else after_lf v'
  end.
(* value.replace(q, '\\' + q)   ("if q in value" is subsumed: replace is the identity otherwise) *)
Definition escape_q (q : N) (v : text) : text :=
  flat_map (fun c => if N.eqb c q then [92%N; q] else [c]) v.

Definition QUOTE : N := 39%N.
Definition DQ : N := 34%N.
Definition SP : N := 32%N.
Definition LF : N := 10%N.

(* "token.is_whitespace and '\n' in token.value" *)
Definition is_break (n : node) : bool := is_ws n && has_lf (nvalue n).

Definition indent_tok (v : text) : list node :=
  match after_lf v with [] => [] | a => [Leaf T_Whitespace a] end.

(* one iteration of the python loop *)
Definition py_item (vlen : nat) (n : node) : list node :=
  if is_break n then
    [Leaf T_Text [SP; QUOTE]; Leaf T_Whitespace [LF];
     Leaf T_Whitespace (repeat SP (vlen + 4)); Leaf T_Text [QUOTE]] ++ indent_tok (nvalue n)
  else [Leaf T_Text (escape_q QUOTE (nvalue n))].

Fixpoint py_loop (vlen : nat) (stream : list node) : list node :=
  match stream with
  | [] => []
  | n :: rest => py_item vlen n ++ py_loop vlen rest
  end.

(* OutputPythonFilter._process(stream, varname, has_nl) with self.count = count *)
Definition output_python (vn : text) (count : nat) (nl : bool) (stream : list node) : list node :=
  (if Nat.ltb 1 count then [Leaf T_Whitespace [LF]] else []) ++
  [Leaf T_Name vn; Leaf T_Whitespace [SP]; Leaf T_Operator [61%N]; Leaf T_Whitespace [SP]] ++
  (if nl then [Leaf T_Operator [40%N]] else []) ++
  [Leaf T_Text [QUOTE]] ++
  py_loop (length vn) stream ++
  [Leaf T_Text [QUOTE]] ++
  (if nl then [Leaf T_Operator [41%N]] else []).

(* one iteration of the php loop *)
Definition php_item (vn : text) (n : node) : list node :=
  if is_break n then
    [Leaf T_Text [SP; DQ; 59%N]; Leaf T_Whitespace [LF];
     Leaf T_Name vn; Leaf T_Whitespace [SP]; Leaf T_Operator [46%N; 61%N]; Leaf T_Whitespace [SP];
     Leaf T_Text [DQ]] ++ indent_tok (nvalue n)
  else [Leaf T_Text (escape_q DQ (nvalue n))].

Fixpoint php_loop (vn : text) (stream : list node) : list node :=
  match stream with
  | [] => []
  | n :: rest => php_item vn n ++ php_loop vn rest
  end.

Definition output_php (vn : text) (count : nat) (nl : bool) (stream : list node) : list node :=
  (if Nat.ltb 1 count then [Leaf T_Whitespace [LF]] else []) ++
  [Leaf T_Name vn; Leaf T_Whitespace [SP]] ++
  (if nl then [Leaf T_Whitespace [SP]] else []) ++
  [Leaf T_Operator [61%N]; Leaf T_Whitespace [SP]; Leaf T_Text [DQ]] ++
  php_loop vn stream ++
  [Leaf T_Text [DQ]; Leaf T_Punctuation [59%N]].

(* OutputFilter.process(stmt) for the statement that makes self.count = count.
   stmt.tokens is replaced (by the generator); the Statement object and its cached value stay. *)
Definition output_tokens (f : ofmt) (count : nat) (stmt : node) : list node :=
  let vn := varname f count in
  match f with
  | OPython => output_python vn count (has_nl stmt) (nkids stmt)
  | OPhp => output_php vn count (has_nl stmt) (nkids stmt)
  end.

Definition output_stmt (f : ofmt) (count : nat) (stmt : node) : node :=
  match stmt with
  | Grp c v _ => Grp c v (output_tokens f count stmt)
  | Leaf _ _ => stmt            (* not reachable: process() is applied to Statements *)
  end.

(* the statements of one format() call: counts 1, 2, 3 ...;  [done] = statements already processed *)
Fixpoint output_all (f : ofmt) (done : nat) (stmts : list node) : list node :=
  match stmts with
  | [] => []
  | s :: rest => output_stmt f (S done) s :: output_all f (S done) rest
  end.

(* ---- format(text, output_format=fmt) ------------------------------------------------------------- *)
(* lexer -> splitter -> (no grouping) -> output filter -> SerializerUnicode -> ''.join *)
Definition cur_format_out (f : ofmt) (t : text) : res text :=
  stmts <- cur_split_stream t ;;
  Ok (serialize_all (output_all f 0 (map statement_of stmts))).

(* ---- format(text, **options) for every option whose filter is modelled ----------------------- *)
Record fopts := {
  f_kw : option conv;                (* keyword_case *)
  f_idc : option conv;               (* identifier_case *)
  f_trunc : option (Z * text);       (* truncate_strings, truncate_char *)
  f_sc : bool;                       (* strip_comments *)
  f_sw : bool;                       (* strip_whitespace *)
  f_ri : option ropts;               (* reindent (+ sub-options); implies strip_whitespace *)
  f_out : option ofmt                (* output_format: None for absent / 'sql' *)
}.

Definition f_grouping (o : fopts) : bool :=
  f_sc o || f_sw o || match f_ri o with Some _ => true | None => false end.

(* one statement through grouping and the stmtprocess list (build_filter_stack order) *)
Definition stmt_pipeline (o : fopts) (s : rstate) (st : node) : res (rstate * node) :=
  g <- (if f_grouping o then group st else Ok st) ;;
  c <- (if f_sc o then strip_comments g else Ok g) ;;
  w <- (if f_sw o || match f_ri o with Some _ => true | None => false end
        then stripws_stmt c else Ok c) ;;
  match f_ri o with
  | Some ro => reindent_stmt ro s w
  | None => Ok (s, w)
  end.

(* FilterStack.run: statement by statement; postprocess = [output filter]; the serializer is applied
   by [serialize_all] *)
Fixpoint fmt_stmts (o : fopts) (s : rstate) (done : nat) (stmts : list node) : res (list node) :=
  match stmts with
  | [] => Ok []
  | st :: rest =>
      '(s', n) <- stmt_pipeline o s st ;;
      let n' := match f_out o with Some f => output_stmt f (S done) n | None => n end in
      (* ReindentFilter keeps the previous Statement OBJECT (_last_stmt) and takes str() of it while
         processing the next one: by then the output filter has replaced its tokens by a generator
         that the serializer has exhausted, so str(_last_stmt) = '' *)
      let s'' := match f_out o, r_last s' with
                 | Some _, Some _ => {| r_lf := r_lf s'; r_last := Some [] |}
                 | _, _ => s'
                 end in
      out <- fmt_stmts o s'' (S done) rest ;;
      Ok (n' :: out)
  end.

Definition cur_format (o : fopts) (t : text) : res text :=
  toks <- cur_lex t ;;
  toks' <- preprocess (f_kw o) (f_idc o) (f_trunc o) toks ;;
  trees <- fmt_stmts o init_rstate 0 (map statement_of (cur_process toks')) ;;
  Ok (serialize_all trees).

Definition out_only (f : ofmt) : fopts :=
  {| f_kw := None; f_idc := None; f_trunc := None; f_sc := false; f_sw := false; f_ri := None;
     f_out := Some f |}.

(* ---- reading the produced source back (specification side, used by the facts) ------------------ *)
(* What the string literals of the produced Python source denote, concatenated.  Outside a literal:
   blanks are skipped, parentheses are counted, a line feed is allowed only inside parentheses
   (implicit line joining).  Inside: backslash + quote is a quote and two backslashes are one.
   None = not a sequence of well-formed single-quoted literals in this fragment of Python (a raw
   line end or NUL inside a literal, another escape sequence, an unterminated literal, a line feed
   outside parentheses, unbalanced parentheses, other text outside the literals). *)
Fixpoint pydec (inside : bool) (depth : nat) (t : text) (acc : text) : option text :=
  match t with
  | [] => if inside then None else match depth with O => Some (rev acc) | S _ => None end
  | c :: t' =>
      if inside then
        if N.eqb c QUOTE then pydec false depth t' acc
        else if N.eqb c 92 then
          match t' with
          | d :: t'' => if N.eqb d QUOTE || N.eqb d 92 then pydec true depth t'' (d :: acc) else None
          | [] => None
          end
        else if N.eqb c 10 || N.eqb c 13 || N.eqb c 0 then None
        else pydec true depth t' (c :: acc)
      else
        if N.eqb c QUOTE then pydec true depth t' acc
        else if N.eqb c SP then pydec false depth t' acc
        else if N.eqb c LF then match depth with O => None | S _ => pydec false depth t' acc end
        else if N.eqb c 40 then pydec false (S depth) t' acc
        else if N.eqb c 41 then match depth with O => None | S d => pydec false d t' acc end
        else None
  end.

(* The same for the PHP source: outside a literal everything but a double quote is skipped
   (`$sql = `, `;`, `$sql .= `); inside, backslash + double quote is a double quote and two backslashes are one; `$` (variable
   interpolation) and other escapes are outside the fragment. *)
Fixpoint phpdec (inside : bool) (t : text) (acc : text) : option text :=
  match t with
  | [] => if inside then None else Some (rev acc)
  | c :: t' =>
      if inside then
        if N.eqb c DQ then phpdec false t' acc
        else if N.eqb c 92 then
          match t' with
          | d :: t'' => if N.eqb d DQ || N.eqb d 92 then phpdec true t'' (d :: acc) else None
          | [] => None
          end
        else if N.eqb c 36 then None
        else phpdec true t' (c :: acc)
      else
        if N.eqb c DQ then phpdec true t' acc else phpdec false t' acc
  end.

(* what one loop iteration contributes to the denoted string: a break token becomes one blank
   followed by what stood after its first line feed, every other token its value *)
Definition payload_item (n : node) : text :=
  if is_break n then SP :: after_lf (nvalue n) else nvalue n.
Definition payload (stream : list node) : text := flat_map payload_item stream.
