(* Executable model of Python's UTF-8 and Latin-1 codecs (strict error handler).
   Code points and bytes are [N]; a Python str is a list of code points 0..0x10FFFF
   (lone surrogates may occur in a str but cannot be encoded); a Python bytes object is a
   list of N each < 256 (the decoders reject "bytes" >= 256 so that they are total).
   Definitions only; the facts are in Utf8Facts.v. *)
From SqlModel Require Import Base.Base.
Local Open Scope N_scope.

(* ---- scalar values ------------------------------------------------------------------------ *)
Definition is_surrogate (c : N) : bool := (0xD800 <=? c) && (c <=? 0xDFFF).
Definition is_scalar (c : N) : bool := (c <=? 0x10FFFF) && negb (is_surrogate c).

(* ---- encoder: str.encode('utf-8') --------------------------------------------------------- *)
Definition utf8_encode1 (c : N) : option (list N) :=
  if c <? 0x80 then Some [c]
  else if c <? 0x800 then Some [0xC0 + c / 64; 0x80 + c mod 64]
  else if c <? 0x10000 then
    if is_surrogate c then None
    else Some [0xE0 + c / 4096; 0x80 + (c / 64) mod 64; 0x80 + c mod 64]
  else if c <? 0x110000 then
    Some [0xF0 + c / 262144; 0x80 + (c / 4096) mod 64; 0x80 + (c / 64) mod 64; 0x80 + c mod 64]
  else None.

Fixpoint utf8_encode (s : list N) : option (list N) :=
  match s with
  | [] => Some []
  | c :: s' =>
      match utf8_encode1 c with
      | None => None
      | Some e =>
          match utf8_encode s' with
          | None => None
          | Some bs => Some (e ++ bs)
          end
      end
  end.

(* ---- decoder: bytes.decode('utf-8'), errors='strict' --------------------------------------- *)
(* Class of a start byte: length of the sequence it introduces, or invalid
   (continuation bytes 80..BF, C0/C1, F5..FF, and anything >= 256). *)
Inductive ulen := L1 | L2 | L3 | L4 | LBad.

Definition utf8_class (b : N) : ulen :=
  if b <? 0x80 then L1
  else if b <? 0xC2 then LBad
  else if b <? 0xE0 then L2
  else if b <? 0xF0 then L3
  else if b <? 0xF5 then L4
  else LBad.

Definition is_cont (b : N) : bool := (0x80 <=? b) && (b <? 0xC0).

(* the code point of a 2-/3-/4-byte sequence whose start byte has the matching class *)
Definition dec2 (b0 b1 : N) : option N :=
  if is_cont b1 then Some ((b0 - 0xC0) * 64 + (b1 - 0x80)) else None.

Definition dec3 (b0 b1 b2 : N) : option N :=
  if is_cont b1 && is_cont b2
     && (if b0 =? 0xE0 then 0xA0 <=? b1 else true)     (* overlong *)
     && (if b0 =? 0xED then b1 <? 0xA0 else true)      (* surrogates *)
  then Some ((b0 - 0xE0) * 4096 + (b1 - 0x80) * 64 + (b2 - 0x80))
  else None.

Definition dec4 (b0 b1 b2 b3 : N) : option N :=
  if is_cont b1 && is_cont b2 && is_cont b3
     && (if b0 =? 0xF0 then 0x90 <=? b1 else true)     (* overlong *)
     && (if b0 =? 0xF4 then b1 <? 0x90 else true)      (* > 0x10FFFF *)
  then Some ((b0 - 0xF0) * 262144 + (b1 - 0x80) * 4096 + (b2 - 0x80) * 64 + (b3 - 0x80))
  else None.

Definition rcons (c : N) (r : res (list N)) : res (list N) :=
  match r with Ok s => Ok (c :: s) | Err e => Err e end.

Definition dcons (oc : option N) (r : res (list N)) : res (list N) :=
  match oc with Some c => rcons c r | None => Err UnicodeDecodeError end.

Fixpoint utf8_decode (bs : list N) : res (list N) :=
  match bs with
  | [] => Ok []
  | b0 :: r1 =>
      match utf8_class b0 with
      | L1 => rcons b0 (utf8_decode r1)
      | L2 =>
          match r1 with
          | b1 :: r2 => dcons (dec2 b0 b1) (utf8_decode r2)
          | _ => Err UnicodeDecodeError
          end
      | L3 =>
          match r1 with
          | b1 :: b2 :: r3 => dcons (dec3 b0 b1 b2) (utf8_decode r3)
          | _ => Err UnicodeDecodeError
          end
      | L4 =>
          match r1 with
          | b1 :: b2 :: b3 :: r4 => dcons (dec4 b0 b1 b2 b3) (utf8_decode r4)
          | _ => Err UnicodeDecodeError
          end
      | LBad => Err UnicodeDecodeError
      end
  end.

(* ---- Latin-1 ------------------------------------------------------------------------------ *)
Fixpoint latin1_decode (bs : list N) : res (list N) :=
  match bs with
  | [] => Ok []
  | b :: bs' => if b <? 256 then rcons b (latin1_decode bs') else Err UnicodeDecodeError
  end.

Fixpoint latin1_encode (s : list N) : option (list N) :=
  match s with
  | [] => Some []
  | c :: s' =>
      if c <? 256 then
        match latin1_encode s' with Some bs => Some (c :: bs) | None => None end
      else None
  end.
