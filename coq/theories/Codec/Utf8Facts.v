(* Facts about the UTF-8 / Latin-1 codec model of Utf8.v. *)
From SqlModel Require Import Base.Base Codec.Utf8.
From Coq Require Import ZArith ZifyN ZifyBool.
Local Open Scope N_scope.
Ltac Zify.zify_post_hook ::= Z.div_mod_to_equations.

Lemma Some_inj {A} (a b : A) : Some a = Some b -> a = b.
Proof. intros H. injection H as H. exact H. Qed.

Ltac fa_bytes := repeat (apply Forall_cons; [lia|]); apply Forall_nil.

(* ---- encoder is total on scalar values, and produces bytes --------------------------------- *)
Lemma utf8_encode1_total c : is_scalar c = true -> exists e, utf8_encode1 c = Some e.
Proof.
  unfold is_scalar, utf8_encode1. intros H.
  destruct (c <? 0x80) eqn:E1; [eauto|].
  destruct (c <? 0x800) eqn:E2; [eauto|].
  destruct (is_surrogate c) eqn:ES; [rewrite andb_false_r in H; discriminate|].
  destruct (c <? 0x10000) eqn:E3; [eauto|].
  destruct (c <? 0x110000) eqn:E4; [eauto|]. lia.
Qed.

Theorem utf8_encode_total : forall s, forallb is_scalar s = true -> exists bs, utf8_encode s = Some bs.
Proof.
  induction s as [|c s IH]; intros H.
  - exists []. reflexivity.
  - cbn [forallb] in H. apply andb_true_iff in H. destruct H as [Hc Hs].
    destruct (utf8_encode1_total c Hc) as [e He]. destruct (IH Hs) as [bs Hbs].
    exists (e ++ bs). cbn [utf8_encode]. rewrite He, Hbs. reflexivity.
Qed.

Lemma utf8_encode1_scalar c e : utf8_encode1 c = Some e -> is_scalar c = true.
Proof.
  unfold is_scalar, utf8_encode1, is_surrogate. intros H.
  destruct (c <? 0x80) eqn:E1; [lia|].
  destruct (c <? 0x800) eqn:E2; [lia|].
  destruct (c <? 0x10000) eqn:E3.
  - destruct ((0xD800 <=? c) && (c <=? 0xDFFF)) eqn:ES; [discriminate|]. lia.
  - destruct (c <? 0x110000) eqn:E4; [lia|discriminate].
Qed.

Lemma utf8_encode1_bytes c e : utf8_encode1 c = Some e -> Forall (fun b => b < 256) e.
Proof.
  unfold utf8_encode1. intros H.
  destruct (c <? 0x80) eqn:E1.
  { apply Some_inj in H; subst e. fa_bytes. }
  destruct (c <? 0x800) eqn:E2.
  { apply Some_inj in H; subst e. fa_bytes. }
  destruct (c <? 0x10000) eqn:E3.
  { destruct (is_surrogate c); [discriminate|]. apply Some_inj in H; subst e. fa_bytes. }
  destruct (c <? 0x110000) eqn:E4; [|discriminate].
  apply Some_inj in H; subst e. fa_bytes.
Qed.

Theorem utf8_encode_bytes : forall s bs, utf8_encode s = Some bs -> Forall (fun b => (b < 256)%N) bs.
Proof.
  induction s as [|c s IH]; intros bs H; cbn [utf8_encode] in H.
  - apply Some_inj in H; subst bs. constructor.
  - destruct (utf8_encode1 c) as [e|] eqn:He; [|discriminate].
    destruct (utf8_encode s) as [bs'|] eqn:Hs; [|discriminate].
    apply Some_inj in H; subst bs. apply Forall_app. split; [eapply utf8_encode1_bytes; eassumption | apply IH; reflexivity].
Qed.

(* ---- round trip ------------------------------------------------------------------------------ *)
(* Decoding the encoding of one code point followed by anything. *)
Lemma utf8_decode_enc1 c e rest :
  utf8_encode1 c = Some e -> utf8_decode (e ++ rest) = rcons c (utf8_decode rest).
Proof.
  unfold utf8_encode1. intros H.
  destruct (c <? 0x80) eqn:E1.
  { apply Some_inj in H; subst e. cbn [app utf8_decode]. unfold utf8_class. rewrite E1. reflexivity. }
  destruct (c <? 0x800) eqn:E2.
  { apply Some_inj in H; subst e. cbn [app utf8_decode].
    assert (HC : utf8_class (0xC0 + c / 64) = L2).
    { unfold utf8_class.
      replace (0xC0 + c / 64 <? 0x80) with false by lia.
      replace (0xC0 + c / 64 <? 0xC2) with false by lia.
      replace (0xC0 + c / 64 <? 0xE0) with true by lia. reflexivity. }
    rewrite HC. unfold dec2, is_cont.
    replace ((0x80 <=? 0x80 + c mod 64) && (0x80 + c mod 64 <? 0xC0)) with true by lia.
    replace ((0xC0 + c / 64 - 0xC0) * 64 + (0x80 + c mod 64 - 0x80)) with c by lia.
    reflexivity. }
  destruct (c <? 0x10000) eqn:E3.
  { unfold is_surrogate in H.
    destruct ((0xD800 <=? c) && (c <=? 0xDFFF)) eqn:ES; [discriminate|].
    apply Some_inj in H; subst e. cbn [app utf8_decode].
    assert (HC : utf8_class (0xE0 + c / 4096) = L3).
    { unfold utf8_class.
      replace (0xE0 + c / 4096 <? 0x80) with false by lia.
      replace (0xE0 + c / 4096 <? 0xC2) with false by lia.
      replace (0xE0 + c / 4096 <? 0xE0) with false by lia.
      replace (0xE0 + c / 4096 <? 0xF0) with true by lia. reflexivity. }
    rewrite HC. unfold dec3, is_cont.
    set (b0 := 0xE0 + c / 4096). set (b1 := 0x80 + (c / 64) mod 64). set (b2 := 0x80 + c mod 64).
    assert (H1 : (0x80 <=? b1) && (b1 <? 0xC0) = true) by (subst b1; lia).
    assert (H2 : (0x80 <=? b2) && (b2 <? 0xC0) = true) by (subst b2; lia).
    assert (H3 : (if b0 =? 0xE0 then 0xA0 <=? b1 else true) = true).
    { destruct (b0 =? 0xE0) eqn:E; [|reflexivity]. subst b0 b1. lia. }
    assert (H4 : (if b0 =? 0xED then b1 <? 0xA0 else true) = true).
    { destruct (b0 =? 0xED) eqn:E; [|reflexivity]. subst b0 b1. lia. }
    rewrite H1, H2, H3, H4. cbn [andb].
    replace ((b0 - 0xE0) * 4096 + (b1 - 0x80) * 64 + (b2 - 0x80)) with c by (subst b0 b1 b2; lia).
    reflexivity. }
  destruct (c <? 0x110000) eqn:E4; [|discriminate].
  apply Some_inj in H; subst e. cbn [app utf8_decode].
  assert (HC : utf8_class (0xF0 + c / 262144) = L4).
  { unfold utf8_class.
    replace (0xF0 + c / 262144 <? 0x80) with false by lia.
    replace (0xF0 + c / 262144 <? 0xC2) with false by lia.
    replace (0xF0 + c / 262144 <? 0xE0) with false by lia.
    replace (0xF0 + c / 262144 <? 0xF0) with false by lia.
    replace (0xF0 + c / 262144 <? 0xF5) with true by lia. reflexivity. }
  rewrite HC. unfold dec4, is_cont.
  set (b0 := 0xF0 + c / 262144). set (b1 := 0x80 + (c / 4096) mod 64).
  set (b2 := 0x80 + (c / 64) mod 64). set (b3 := 0x80 + c mod 64).
  assert (H1 : (0x80 <=? b1) && (b1 <? 0xC0) = true) by (subst b1; lia).
  assert (H2 : (0x80 <=? b2) && (b2 <? 0xC0) = true) by (subst b2; lia).
  assert (H3 : (0x80 <=? b3) && (b3 <? 0xC0) = true) by (subst b3; lia).
  assert (H4 : (if b0 =? 0xF0 then 0x90 <=? b1 else true) = true).
  { destruct (b0 =? 0xF0) eqn:E; [|reflexivity]. subst b0 b1. lia. }
  assert (H5 : (if b0 =? 0xF4 then b1 <? 0x90 else true) = true).
  { destruct (b0 =? 0xF4) eqn:E; [|reflexivity]. subst b0 b1. lia. }
  rewrite H1, H2, H3, H4, H5. cbn [andb].
  replace ((b0 - 0xF0) * 262144 + (b1 - 0x80) * 4096 + (b2 - 0x80) * 64 + (b3 - 0x80)) with c
    by (subst b0 b1 b2 b3; lia).
  reflexivity.
Qed.

Theorem utf8_roundtrip : forall s bs, utf8_encode s = Some bs -> utf8_decode bs = Ok s.
Proof.
  induction s as [|c s IH]; intros bs H; cbn [utf8_encode] in H.
  - apply Some_inj in H; subst bs. reflexivity.
  - destruct (utf8_encode1 c) as [e|] eqn:He; [|discriminate].
    destruct (utf8_encode s) as [bs'|] eqn:Hs; [|discriminate].
    apply Some_inj in H; subst bs. rewrite (utf8_decode_enc1 c e bs' He), (IH bs' eq_refl). reflexivity.
Qed.

(* ---- the decoder accepts only canonical encodings ------------------------------------------- *)
Lemma utf8_class_inv b :
  match utf8_class b with
  | L1 => b < 0x80
  | L2 => 0xC2 <= b < 0xE0
  | L3 => 0xE0 <= b < 0xF0
  | L4 => 0xF0 <= b < 0xF5
  | LBad => True
  end.
Proof.
  unfold utf8_class.
  destruct (b <? 0x80) eqn:E1; [lia|].
  destruct (b <? 0xC2) eqn:E2; [exact I|].
  destruct (b <? 0xE0) eqn:E3; [lia|].
  destruct (b <? 0xF0) eqn:E4; [lia|].
  destruct (b <? 0xF5) eqn:E5; [lia|exact I].
Qed.

Lemma enc1_of_L1 b : utf8_class b = L1 -> utf8_encode1 b = Some [b].
Proof.
  intros HC. pose proof (utf8_class_inv b) as HI. rewrite HC in HI.
  unfold utf8_encode1. replace (b <? 0x80) with true by lia. reflexivity.
Qed.

Lemma enc1_of_dec2 b0 b1 c :
  utf8_class b0 = L2 -> dec2 b0 b1 = Some c -> utf8_encode1 c = Some [b0; b1].
Proof.
  intros HC HD. pose proof (utf8_class_inv b0) as HI. rewrite HC in HI.
  unfold dec2, is_cont in HD.
  destruct ((0x80 <=? b1) && (b1 <? 0xC0)) eqn:E1; [|discriminate].
  apply Some_inj in HD.
  unfold utf8_encode1.
  replace (c <? 0x80) with false by lia.
  replace (c <? 0x800) with true by lia.
  f_equal. f_equal; [lia|]. f_equal; lia.
Qed.

Lemma enc1_of_dec3 b0 b1 b2 c :
  utf8_class b0 = L3 -> dec3 b0 b1 b2 = Some c -> utf8_encode1 c = Some [b0; b1; b2].
Proof.
  intros HC HD. pose proof (utf8_class_inv b0) as HI. rewrite HC in HI.
  unfold dec3, is_cont in HD.
  destruct ((0x80 <=? b1) && (b1 <? 0xC0)) eqn:E1; [|discriminate].
  destruct ((0x80 <=? b2) && (b2 <? 0xC0)) eqn:E2; [|discriminate].
  destruct (if b0 =? 0xE0 then 0xA0 <=? b1 else true) eqn:G1; [|discriminate].
  destruct (if b0 =? 0xED then b1 <? 0xA0 else true) eqn:G2; [|discriminate].
  cbn [andb] in HD. apply Some_inj in HD.
  assert (H3 : b0 = 0xE0 -> 0xA0 <= b1).
  { intros Hb. destruct (b0 =? 0xE0) eqn:EA; lia. }
  assert (H4 : b0 = 0xED -> b1 < 0xA0).
  { intros Hb. destruct (b0 =? 0xED) eqn:EB; lia. }
  clear G1 G2.
  unfold utf8_encode1, is_surrogate.
  replace (c <? 0x80) with false by lia.
  replace (c <? 0x800) with false by lia.
  replace (c <? 0x10000) with true by lia.
  replace ((0xD800 <=? c) && (c <=? 0xDFFF)) with false by lia.
  f_equal. f_equal; [lia|]. f_equal; [lia|]. f_equal; lia.
Qed.

Lemma enc1_of_dec4 b0 b1 b2 b3 c :
  utf8_class b0 = L4 -> dec4 b0 b1 b2 b3 = Some c -> utf8_encode1 c = Some [b0; b1; b2; b3].
Proof.
  intros HC HD. pose proof (utf8_class_inv b0) as HI. rewrite HC in HI.
  unfold dec4, is_cont in HD.
  destruct ((0x80 <=? b1) && (b1 <? 0xC0)) eqn:E1; [|discriminate].
  destruct ((0x80 <=? b2) && (b2 <? 0xC0)) eqn:E2; [|discriminate].
  destruct ((0x80 <=? b3) && (b3 <? 0xC0)) eqn:E3; [|discriminate].
  destruct (if b0 =? 0xF0 then 0x90 <=? b1 else true) eqn:G1; [|discriminate].
  destruct (if b0 =? 0xF4 then b1 <? 0x90 else true) eqn:G2; [|discriminate].
  cbn [andb] in HD. apply Some_inj in HD.
  assert (H3 : b0 = 0xF0 -> 0x90 <= b1).
  { intros Hb. destruct (b0 =? 0xF0) eqn:EA; lia. }
  assert (H4 : b0 = 0xF4 -> b1 < 0x90).
  { intros Hb. destruct (b0 =? 0xF4) eqn:EB; lia. }
  clear G1 G2.
  unfold utf8_encode1.
  replace (c <? 0x80) with false by lia.
  replace (c <? 0x800) with false by lia.
  replace (c <? 0x10000) with false by lia.
  replace (c <? 0x110000) with true by lia.
  f_equal. f_equal; [lia|]. f_equal; [lia|]. f_equal; [lia|]. f_equal; lia.
Qed.

Lemma rcons_ok c r s : rcons c r = Ok s -> exists s', r = Ok s' /\ s = c :: s'.
Proof.
  destruct r as [s'|e]; cbn [rcons]; intros H; [|discriminate].
  exists s'. split; [reflexivity|]. injection H as H. symmetry. exact H.
Qed.

Lemma dcons_ok oc r s : dcons oc r = Ok s -> exists c s', oc = Some c /\ r = Ok s' /\ s = c :: s'.
Proof.
  destruct oc as [c|]; cbn [dcons]; intros H; [|discriminate].
  apply rcons_ok in H. destruct H as [s' [Hr Hs]]. exists c, s'. auto.
Qed.

Lemma utf8_decode_inj_len : forall n bs s,
  (length bs <= n)%nat -> utf8_decode bs = Ok s -> utf8_encode s = Some bs.
Proof.
  induction n as [|n IH]; intros bs s Hn H.
  - destruct bs as [|b0 r1]; [|cbn [length] in Hn; lia].
    cbn [utf8_decode] in H. injection H as <-. reflexivity.
  - destruct bs as [|b0 r1].
    { cbn [utf8_decode] in H. injection H as <-. reflexivity. }
    cbn [utf8_decode] in H. cbn [length] in Hn.
    destruct (utf8_class b0) eqn:HC.
    + apply rcons_ok in H. destruct H as [s' [Hr ->]].
      cbn [utf8_encode]. rewrite (enc1_of_L1 b0 HC), (IH r1 s' ltac:(lia) Hr). reflexivity.
    + destruct r1 as [|b1 r2]; [discriminate|]. cbn [length] in Hn.
      apply dcons_ok in H. destruct H as [c [s' [Hd [Hr ->]]]].
      cbn [utf8_encode]. rewrite (enc1_of_dec2 b0 b1 c HC Hd), (IH r2 s' ltac:(lia) Hr). reflexivity.
    + destruct r1 as [|b1 [|b2 r3]]; [discriminate|discriminate|]. cbn [length] in Hn.
      apply dcons_ok in H. destruct H as [c [s' [Hd [Hr ->]]]].
      cbn [utf8_encode]. rewrite (enc1_of_dec3 b0 b1 b2 c HC Hd), (IH r3 s' ltac:(lia) Hr). reflexivity.
    + destruct r1 as [|b1 [|b2 [|b3 r4]]]; [discriminate|discriminate|discriminate|]. cbn [length] in Hn.
      apply dcons_ok in H. destruct H as [c [s' [Hd [Hr ->]]]].
      cbn [utf8_encode]. rewrite (enc1_of_dec4 b0 b1 b2 b3 c HC Hd), (IH r4 s' ltac:(lia) Hr). reflexivity.
    + discriminate.
Qed.

Theorem utf8_decode_inj : forall bs s, utf8_decode bs = Ok s -> utf8_encode s = Some bs.
Proof. intros bs s H. exact (utf8_decode_inj_len (length bs) bs s (le_n _) H). Qed.

(* Consequences: decode succeeds exactly on the image of encode; outputs are scalar values. *)
Corollary utf8_decode_ok_iff bs s : utf8_decode bs = Ok s <-> utf8_encode s = Some bs.
Proof. split; [apply utf8_decode_inj | apply utf8_roundtrip]. Qed.

Lemma utf8_encode_scalar : forall s bs, utf8_encode s = Some bs -> forallb is_scalar s = true.
Proof.
  induction s as [|c s IH]; intros bs H; cbn [utf8_encode] in H; [reflexivity|].
  destruct (utf8_encode1 c) as [e|] eqn:He; [|discriminate].
  destruct (utf8_encode s) as [bs'|] eqn:Hs; [|discriminate].
  cbn [forallb]. rewrite (utf8_encode1_scalar c e He), (IH bs' eq_refl). reflexivity.
Qed.

Corollary utf8_decode_scalar bs s : utf8_decode bs = Ok s -> forallb is_scalar s = true.
Proof. intros H. eapply utf8_encode_scalar. apply utf8_decode_inj. exact H. Qed.

Corollary utf8_decode_bytes bs s : utf8_decode bs = Ok s -> Forall (fun b => b < 256) bs.
Proof. intros H. eapply utf8_encode_bytes. apply utf8_decode_inj. exact H. Qed.

(* the only exception the decoder raises is UnicodeDecodeError *)
Lemma utf8_decode_err bs e : utf8_decode bs = Err e -> e = UnicodeDecodeError.
Proof.
  revert e. remember (length bs) as n eqn:Hn. assert (Hle : (length bs <= n)%nat) by lia. clear Hn.
  revert bs Hle. induction n as [|n IH]; intros bs Hle e H.
  - destruct bs as [|b0 r1]; [discriminate|cbn [length] in Hle; lia].
  - destruct bs as [|b0 r1]; [discriminate|]. cbn [utf8_decode] in H. cbn [length] in Hle.
    assert (HR : forall c r, (length r <= n)%nat -> rcons c (utf8_decode r) = Err e -> e = UnicodeDecodeError).
    { intros c r Hr. destruct (utf8_decode r) as [s'|e'] eqn:Hd; cbn [rcons]; [discriminate|].
      intros Q. injection Q as <-. exact (IH r Hr e' Hd). }
    assert (HD : forall oc r, (length r <= n)%nat -> dcons oc (utf8_decode r) = Err e -> e = UnicodeDecodeError).
    { intros [c|] r Hr; cbn [dcons]; [apply HR; exact Hr|]. intros Q. injection Q as <-. reflexivity. }
    destruct (utf8_class b0).
    + apply (HR b0 r1); [lia|exact H].
    + destruct r1 as [|b1 r2]; [injection H as <-; reflexivity|]. cbn [length] in Hle.
      apply (HD (dec2 b0 b1) r2); [lia|exact H].
    + destruct r1 as [|b1 [|b2 r3]]; [injection H as <-; reflexivity|injection H as <-; reflexivity|].
      cbn [length] in Hle. apply (HD (dec3 b0 b1 b2) r3); [lia|exact H].
    + destruct r1 as [|b1 [|b2 [|b3 r4]]];
        [injection H as <-; reflexivity|injection H as <-; reflexivity|injection H as <-; reflexivity|].
      cbn [length] in Hle. apply (HD (dec4 b0 b1 b2 b3) r4); [lia|exact H].
    + injection H as <-; reflexivity.
Qed.

(* ---- Latin-1 ------------------------------------------------------------------------------- *)
Theorem latin1_roundtrip : forall s bs, latin1_encode s = Some bs -> latin1_decode bs = Ok s.
Proof.
  induction s as [|c s IH]; intros bs H; cbn [latin1_encode] in H.
  - apply Some_inj in H; subst bs. reflexivity.
  - destruct (c <? 256) eqn:E; [|discriminate].
    destruct (latin1_encode s) as [bs'|] eqn:Hs; [|discriminate].
    apply Some_inj in H; subst bs. cbn [latin1_decode]. rewrite E, (IH bs' eq_refl). reflexivity.
Qed.

Theorem latin1_decode_total : forall bs, Forall (fun b => (b < 256)%N) bs -> latin1_decode bs = Ok bs.
Proof.
  induction bs as [|b bs IH]; intros H; [reflexivity|].
  inversion H as [|b' bs' Hb Hbs]; subst b' bs'.
  cbn [latin1_decode]. replace (b <? 256) with true by lia. rewrite (IH Hbs). reflexivity.
Qed.

(* Latin-1 encode is the identity on its domain, decode is the identity on its domain. *)
Lemma latin1_encode_id : forall s bs, latin1_encode s = Some bs -> bs = s.
Proof.
  induction s as [|c s IH]; intros bs H; cbn [latin1_encode] in H.
  - apply Some_inj in H. symmetry. exact H.
  - destruct (c <? 256); [|discriminate].
    destruct (latin1_encode s) as [bs'|] eqn:Hs; [|discriminate].
    apply Some_inj in H; subst bs. rewrite (IH bs' eq_refl). reflexivity.
Qed.

Lemma latin1_decode_ok : forall bs s, latin1_decode bs = Ok s -> s = bs /\ Forall (fun b => b < 256) bs.
Proof.
  induction bs as [|b bs IH]; intros s H; cbn [latin1_decode] in H.
  - injection H as <-. split; [reflexivity|constructor].
  - destruct (b <? 256) eqn:E; [|discriminate].
    apply rcons_ok in H. destruct H as [s' [Hr ->]]. destruct (IH s' Hr) as [-> HF].
    split; [reflexivity|]. constructor; [lia|exact HF].
Qed.

Lemma latin1_decode_err bs e : latin1_decode bs = Err e -> e = UnicodeDecodeError.
Proof.
  induction bs as [|b bs IH]; cbn [latin1_decode]; intros H; [discriminate|].
  destruct (b <? 256); [|injection H as <-; reflexivity].
  destruct (latin1_decode bs) as [s'|e']; cbn [rcons] in H; [discriminate|].
  injection H as <-. apply IH. reflexivity.
Qed.

(* ---- examples ------------------------------------------------------------------------------ *)
Definition ex_str : list N := [0x41; 0xE9; 0x20AC; 0x1F600; 0x10FFFF; 0].
Definition ex_bytes : list N :=
  [0x41; 0xC3; 0xA9; 0xE2; 0x82; 0xAC; 0xF0; 0x9F; 0x98; 0x80; 0xF4; 0x8F; 0xBF; 0xBF; 0].

Example ex_scalar : forallb is_scalar ex_str = true.  Proof. vm_compute. reflexivity. Qed.
Example ex_encode : utf8_encode ex_str = Some ex_bytes.  Proof. vm_compute. reflexivity. Qed.
Example ex_decode : utf8_decode ex_bytes = Ok ex_str.  Proof. vm_compute. reflexivity. Qed.
Example ex_encode_surrogate : utf8_encode [0x41; 0xD800] = None.  Proof. vm_compute. reflexivity. Qed.
Example ex_encode_surrogate_hi : utf8_encode [0xDFFF] = None.  Proof. vm_compute. reflexivity. Qed.
Example ex_encode_too_big : utf8_encode [0x110000] = None.  Proof. vm_compute. reflexivity. Qed.
Example ex_encode_bounds :
  map utf8_encode1 [0x7F; 0x80; 0x7FF; 0x800; 0xD7FF; 0xE000; 0xFFFF; 0x10000] =
  [Some [0x7F]; Some [0xC2; 0x80]; Some [0xDF; 0xBF]; Some [0xE0; 0xA0; 0x80]; Some [0xED; 0x9F; 0xBF];
   Some [0xEE; 0x80; 0x80]; Some [0xEF; 0xBF; 0xBF]; Some [0xF0; 0x90; 0x80; 0x80]].
Proof. vm_compute. reflexivity. Qed.
Example ex_reject :
  map utf8_decode [[0xC0; 0x80]; [0xED; 0xA0; 0x80]; [0xF4; 0x90; 0x80; 0x80]; [0xE2; 0x82]; [0x80]; [0xFF];
                   [0xE0; 0x9F; 0xBF]; [0xF0; 0x8F; 0xBF; 0xBF]; [0xC1; 0xBF]; [0xF5; 0x80; 0x80; 0x80];
                   [0xC2; 0x41]; [0x41; 0x100]; [0xC2; 0x180]]
  = repeat (Err UnicodeDecodeError) 13.
Proof. vm_compute. reflexivity. Qed.
Example ex_latin1 : latin1_encode [0x41; 0xE9; 0xFF] = Some [0x41; 0xE9; 0xFF]
                    /\ latin1_decode [0x41; 0xE9; 0xFF] = Ok [0x41; 0xE9; 0xFF]
                    /\ latin1_encode [0x41; 0x100] = None
                    /\ latin1_decode [0x100] = Err UnicodeDecodeError.
Proof. vm_compute. repeat split. Qed.

Print Assumptions utf8_encode_total.
Print Assumptions utf8_encode_bytes.
Print Assumptions utf8_roundtrip.
Print Assumptions utf8_decode_inj.
Print Assumptions utf8_decode_ok_iff.
Print Assumptions utf8_decode_err.
Print Assumptions latin1_roundtrip.
Print Assumptions latin1_decode_total.
