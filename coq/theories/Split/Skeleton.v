(* C11 at the splitter level: the SKELETON relation between two token streams.
   Two streams are skeleton-related when they consist of the same significant (non-whitespace)
   tokens -- keyword tokens up to letter case and up to the spelling of their inner whitespace --
   separated by whitespace runs (Whitespace / Newline tokens) at the same places.
   Definitions only (all executable); the proofs are in SkeletonFacts.v. *)
From SqlModel Require Import Base PyStr SplitDefs Splitter.
From SqlModel.Gen Require Import CaseTabs SplitTab.

(* ---- keyword spelling up to case and inner whitespace ------------------------------------- *)
(* collapse_go: Base/PyStr.v (every maximal run of str.isspace() characters becomes one blank) *)
Definition collapse (t : text) : text := collapse_go space_set false t.
Definition has_space (t : text) : bool := existsb (fun c => cmem c space_set) t.

Definition is_kw_tok (tk : tok) : bool := tin (fst tk) T_Keyword.
Definition kw_key (v : text) : text := collapse (upper v).

(* the significant view of a token: its type, and its value (keywords: upper-cased, inner
   whitespace collapsed) *)
Definition skey (tk : tok) : tok :=
  (fst tk, if is_kw_tok tk then kw_key (snd tk) else snd tk).
Definition sig (l : list tok) : list tok :=
  map skey (filter (fun tk => negb (is_ws_tok tk)) l).

(* ---- what the split tables compare (the guard; since the tables compare the collapsed, upper-cased
   spelling it follows from the unguarded relation: SkeletonFacts.guard_free) -------------------- *)
Definition sk_END_multi : list text :=
  [[69; 78; 68; 32; 73; 70]; [69; 78; 68; 32; 70; 79; 82]; [69; 78; 68; 32; 87; 72; 73; 76; 69]]%N.
(* unified in ('END IF', 'END FOR', 'END WHILE'),  unified = ' '.join(value.upper().split()) *)
Definition end_multi (tk : tok) : bool :=
  existsb (text_eqb (join_split space_set (upper (snd tk)))) sk_END_multi.
(* value.split()[0].upper() == 'GO' *)
Definition go_word (tk : tok) : bool := text_eqb (upper (first_word space_set (snd tk))) [71; 79]%N.

(* the unguarded token relation: same type, same key *)
Definition tok_skel0b (a b : tok) : bool :=
  ttype_eqb (fst a) (fst b) && text_eqb (snd (skey a)) (snd (skey b)).
(* the guard: keyword tokens agree on the two literal comparisons of the tables *)
Definition tok_guardb (a b : tok) : bool :=
  negb (is_kw_tok a)
  || (Bool.eqb (end_multi a) (end_multi b)
      && (negb (ttype_eqb (fst a) T_Keyword) || Bool.eqb (go_word a) (go_word b))).
Definition tok_skelb (g : bool) (a b : tok) : bool := tok_skel0b a b && (negb g || tok_guardb a b).

(* ---- streams as chunks: (whitespace run, significant token)* trailing-run ----------------- *)
Definition chunk := (list tok * tok)%type.

Fixpoint chunks (l : list tok) : list chunk * list tok :=
  match l with
  | [] => ([], [])
  | tk :: r =>
      let '(cs, tr) := chunks r in
      if is_ws_tok tk
      then match cs with
           | [] => ([], tk :: tr)
           | (w, a) :: cs' => ((tk :: w, a) :: cs', tr)
           end
      else (([], tk) :: cs, tr)
  end.

Fixpoint unchunk (cs : list chunk) (tr : list tok) : list tok :=
  match cs with
  | [] => tr
  | (w, a) :: cs' => w ++ a :: unchunk cs' tr
  end.

Definition nilb {A} (l : list A) : bool := match l with [] => true | _ => false end.

(* a run contains a whitespace token that is not an end-of-statement type (a Newline): it ends the
   statement when it follows a terminator *)
Definition has_brk (w : list tok) : bool := negb (forallb (fun tk => in_eos eos_ttypes (fst tk)) w).

(* g: with the literal-comparison guard;  sup: the runs are empty at the same places *)
Definition chunk_relb (g sup : bool) (c c' : chunk) : bool :=
  let '(w, a) := c in
  let '(w', b) := c' in
  forallb is_ws_tok w && forallb is_ws_tok w' && negb (is_ws_tok a) && negb (is_ws_tok b)
  && tok_skelb g a b
  && (negb sup || Bool.eqb (nilb w) (nilb w'))
  (* a single-line comment stays with the preceding statement iff no line break separates it
     from the terminator: the runs before such a token must agree on containing a break *)
  && (negb g || negb (in_eos eos_ttypes (fst a)) || Bool.eqb (has_brk w) (has_brk w')).

Fixpoint forall2b {A B} (f : A -> B -> bool) (l : list A) (l' : list B) : bool :=
  match l, l' with
  | [], [] => true
  | x :: r, y :: r' => f x y && forall2b f r r'
  | _, _ => false
  end.

Definition skel_gen (g sup : bool) (l l' : list tok) : bool :=
  let '(cs, tr) := chunks l in
  let '(cs', tr') := chunks l' in
  forall2b (chunk_relb g sup) cs cs'
  && forallb is_ws_tok tr && forallb is_ws_tok tr'
  && (negb sup || Bool.eqb (nilb tr) (nilb tr')).

(* THE skeleton relation of C11: same significant tokens up to keyword case / inner whitespace,
   whitespace runs non-empty at the same places *)
Definition skel0b : list tok -> list tok -> bool := skel_gen false true.
(* ... restricted by the guard under which the splitter is invariant *)
Definition skelb : list tok -> list tok -> bool := skel_gen true true.
(* the guard alone, whitespace runs may even appear or vanish *)
Definition skel_splitb : list tok -> list tok -> bool := skel_gen true false.

(* the one remaining guard (finding C11-comment-after-terminator: EOS_TTYPE lacks Newline): the whitespace
   runs in front of a token of an end-of-statement type (a single-line comment) agree on containing a break *)
Definition chunk_brkb (c c' : chunk) : bool :=
  negb (in_eos eos_ttypes (fst (snd c))) || Bool.eqb (has_brk (fst c)) (has_brk (fst c')).
Definition brk_agreeb (l l' : list tok) : bool :=
  forall2b chunk_brkb (fst (chunks l)) (fst (chunks l')).

(* the observable of the splitter C11 talks about: the significant tokens of each statement *)
Definition stmt_sigs (stmts : list (list tok)) : list (list tok) := map sig stmts.
