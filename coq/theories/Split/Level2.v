(* Further consequences of the split-level protocol of the CURRENT (regenerated) tables:
   - a `;` nested in parentheses never ends a statement (as long as no unopened END precedes it)
   - CREATE ... BEGIN ... END; is one unit (C17)
   - tokens of non-keyword, non-punctuation type are opaque to the splitter (C05)            *)
From SqlModel Require Import Base PyStr SplitDefs Splitter SplitFacts Level.
From SqlModel.Gen Require Import CaseTabs SplitTab.
From Coq Require Import ZArith Lia.
Local Open Scope Z_scope.

(* ---- strict tokens: plain tokens that are not END either: the level moves exactly with the
        parentheses ------------------------------------------------------------------------- *)
Definition strict_tok (tk : tok) : bool := plain_tok tk && negb (kw_among tk [w_END]).

Lemma csl_strict st tk :
  strict_tok tk = true -> I0 st ->
  exists st', change_splitlevel st (fst tk) (snd tk) = (st', paren_delta tk) /\ I0 st'
              /\ (is_create st = true -> is_create st' = true).
Proof.
  intros Hp [Hb Hc]. unfold strict_tok in Hp. apply andb_true_iff in Hp. destruct Hp as [Hp He].
  apply negb_true_iff in He.
  destruct (is_lparen tk) eqn:Hl.
  { rewrite (csl_lparen _ _ Hl). exists st. unfold paren_delta, I0. rewrite Hl. auto. }
  destruct (is_rparen tk) eqn:Hr.
  { rewrite (csl_rparen _ _ Hl Hr). exists st. unfold paren_delta, I0. rewrite Hl, Hr. auto. }
  destruct (tin (fst tk) T_Keyword) eqn:Hk.
  2:{ rewrite (csl_other _ _ Hk Hl Hr). exists st. unfold paren_delta, I0. rewrite Hl, Hr. auto. }
  unfold plain_tok, kw_among in Hp, He. rewrite Hk in Hp, He. cbn [andb existsb] in Hp, He.
  apply andb_true_iff in Hp. destruct Hp as [_ Hp]. apply negb_true_iff in Hp.
  repeat (apply orb_false_iff in Hp; destruct Hp as [? Hp]).
  apply orb_false_iff in He. destruct He as [He _].
  unfold paren_delta. rewrite Hl, Hr.
  unfold is_lparen, is_rparen, T_Punctuation, T_Keyword in *.
  unfold w_DECLARE, w_BEGIN, w_END_IF, w_END_FOR, w_END_WHILE, w_END in *.
  unfold change_splitlevel. rewrite Hl, Hr, Hk. cbn [negb existsb]. cbv zeta. fold (unified (snd tk)).
  repeat match goal with
         | H : text_eqb (unified (snd tk)) ?w = false |- _ => rewrite H; clear H
         end.
  cbn [orb andb]. rewrite ?andb_false_r.
  assert (Hz : Z.gtb (begin_depth st) 0 = false) by (rewrite Hb; reflexivity).
  rewrite Hz, ?andb_false_r. unfold I0.
  destruct (ttype_eqb (fst tk) [Keyword; DDL] && text_prefixb [67; 82; 69; 65; 84; 69]%N (unified (snd tk)));
    (eexists; split; [reflexivity|]; cbn; auto).
Qed.

Lemma csl_create st tk :
  is_create_ddl tk = true ->
  change_splitlevel st (fst tk) (snd tk)
  = ({| in_declare := in_declare st; case_depth := case_depth st; is_create := true;
        begin_depth := begin_depth st |}, 0).
Proof.
  unfold is_create_ddl, T_DDL, w_CREATE. intros H.
  assert (Hk : tin (fst tk) T_Keyword = true).
  { apply andb_true_iff in H. destruct H as [H _]. apply ddl_is_kw, H. }
  destruct (kw_not_paren _ Hk) as [Hl Hr].
  unfold is_lparen, is_rparen, T_Punctuation, T_Keyword in *.
  unfold change_splitlevel. rewrite Hl, Hr, Hk. cbn [negb]. cbv zeta. fold (unified (snd tk)). rewrite H. reflexivity.
Qed.

(* semicolons allowed, but only at nesting depth >= 1 *)
Fixpoint semis_nested (lv : Z) (p : list tok) : bool :=
  match p with
  | [] => true
  | tk :: r =>
      if is_semi tk then Z.leb 1 lv && semis_nested lv r
      else strict_tok tk && semis_nested (lv + paren_delta tk) r
  end.

Lemma strict_not_term tk : strict_tok tk = true -> is_semi tk = false /\ is_go tk = false.
Proof.
  unfold strict_tok, plain_tok. intros H.
  repeat (apply andb_true_iff in H; destruct H as [H ?]).
  split; apply negb_true_iff; assumption.
Qed.

Lemma nested_run : forall p st rest,
  semis_nested (level st) p = true -> I0 (ss st) -> consume_ws st = false ->
  exists st', PG st (p ++ rest) = PG st' rest /\ I0 (ss st') /\ consume_ws st' = false
              /\ level st' = level st + net p /\ acc st' = rev p ++ acc st
              /\ (is_create (ss st) = true -> is_create (ss st') = true).
Proof.
  induction p as [|tk p IH]; intros st rest Hp Hi Hc.
  - exists st. cbn [app net rev]. repeat split; auto; try apply Hi; lia.
  - cbn [semis_nested] in Hp. cbn [app]. rewrite (PG_noconsume _ _ _ Hc).
    destruct (is_semi tk) eqn:Hs.
    + apply andb_true_iff in Hp. destruct Hp as [Hl Hp]. apply Z.leb_le in Hl.
      destruct (semi_not_paren _ Hs) as [Hl1 Hl2].
      assert (E : change_splitlevel (ss st) (fst tk) (snd tk) = (ss st, 0))
        by (apply csl_other; auto using semi_not_kw).
      rewrite (step_quiet _ _ _ _ Hc E (semi_not_go _ Hs)) by (right; lia).
      match goal with |- context [PG ?s (p ++ rest)] =>
        destruct (IH s rest) as (st' & E' & Hi' & Hc' & Hl' & Ha' & Hcr') end;
        [cbn [level]; replace (level st + 0) with (level st) by lia; exact Hp|exact Hi|reflexivity|].
      exists st'. split; [exact E'|]. split; [exact Hi'|]. split; [exact Hc'|].
      cbn [level acc ss] in *. unfold paren_delta in *. cbn [net]. unfold paren_delta.
      rewrite Hl1, Hl2. split; [lia|]. split; [|exact Hcr'].
      rewrite Ha'. cbn [rev]. rewrite <- app_assoc. reflexivity.
    + apply andb_true_iff in Hp. destruct Hp as [Ht Hp].
      destruct (csl_strict (ss st) tk Ht Hi) as (s' & E & Hi' & Hcr).
      destruct (strict_not_term _ Ht) as [_ Hg].
      rewrite (step_quiet _ _ _ _ Hc E Hg (or_introl Hs)).
      match goal with |- context [PG ?s (p ++ rest)] =>
        destruct (IH s rest) as (st' & E' & Hi'' & Hc' & Hl' & Ha' & Hcr') end;
        [exact Hp|exact Hi'|reflexivity|].
      exists st'. split; [exact E'|]. split; [exact Hi''|]. split; [exact Hc'|].
      cbn [level acc ss] in *. cbn [net]. split; [lia|]. split; [|auto].
      rewrite Ha'. cbn [rev]. rewrite <- app_assoc. reflexivity.
Qed.

(* A `;` that is nested in parentheses (depth >= 1 counted from the start of the statement) does
   not end the statement, provided the statement so far consists of strict tokens (in particular
   no END keyword has lowered the level). *)
Theorem paren_semi_no_split a sm rest :
  forallb strict_tok a = true -> 1 <= net a -> is_semi sm = true ->
  exists st', PG PI (a ++ sm :: rest) = PG st' rest /\ consume_ws st' = false
              /\ acc st' = sm :: rev a.
Proof.
  intros Ha Hn Hs.
  assert (Hsn : forall lv, semis_nested lv a = true).
  { clear Hn. induction a as [|tk a IH]; intros lv; [reflexivity|].
    cbn [forallb] in Ha. apply andb_true_iff in Ha. destruct Ha as [Ht Ha].
    cbn [semis_nested]. destruct (strict_not_term _ Ht) as [Hs' _]. rewrite Hs', Ht. apply IH, Ha. }
  destruct (nested_run a PI (sm :: rest) (Hsn _) I0_reset eq_refl)
    as (st1 & E1 & Hi1 & Hc1 & Hl1 & Ha1 & _).
  rewrite E1, (PG_noconsume _ _ _ Hc1).
  destruct (semi_not_paren _ Hs) as [Hl2 Hr2].
  assert (E : change_splitlevel (ss st1) (fst sm) (snd sm) = (ss st1, 0))
    by (apply csl_other; auto using semi_not_kw).
  cbn [level pinit] in Hl1.
  rewrite (step_quiet _ _ _ _ Hc1 E (semi_not_go _ Hs)) by (right; lia).
  eexists. split; [reflexivity|]. cbn [consume_ws acc]. split; [reflexivity|].
  rewrite Ha1. cbn [acc pinit]. rewrite app_nil_r. reflexivity.
Qed.

(* ================================================================================================
   C17: CREATE <header> BEGIN <block> END ; <eos>  is one unit
   ================================================================================================ *)
Definition create_unit (cr : tok) (hdr : list tok) (bg : tok) (body : list tok) (en : tok)
           (e : list tok) : list tok :=
  cr :: hdr ++ bg :: body ++ en :: semi :: e.

Lemma create_is_strict cr : is_create_ddl cr = true -> is_go cr = false /\ is_semi cr = false.
Proof.
  unfold is_create_ddl, is_go, is_semi, T_DDL, T_Keyword, T_Punctuation. intros H.
  apply andb_true_iff in H. destruct H as [H _]. apply ttype_eqb_eq in H. rewrite H. auto.
Qed.

Theorem create_is_unit cr hdr bg body en e :
  is_create_ddl cr = true ->
  forallb strict_tok hdr = true -> net hdr = 0 ->
  kwtok bg [w_BEGIN] = true -> Blk true body -> kwtok en [w_END] = true ->
  forallb (fun tk => EOS (fst tk)) e = true ->
  Unit (create_unit cr hdr bg body en e).
Proof.
  intros Hcr Hh Hn Hbg Hbody Hen He. split.
  - unfold create_unit. cbn [forallb].
    assert (X : is_ws_tok cr = false).
    { unfold is_create_ddl, T_DDL in Hcr. apply andb_true_iff in Hcr. destruct Hcr as [H _].
      apply ttype_eqb_eq in H. unfold is_ws_tok. rewrite H. reflexivity. }
    rewrite X. reflexivity.
  - intros rest. unfold create_unit.
    (* CREATE *)
    destruct (create_is_strict _ Hcr) as [Hg0 Hs0].
    change ((cr :: hdr ++ bg :: body ++ en :: semi :: e) ++ rest)
      with (cr :: ((hdr ++ bg :: body ++ en :: semi :: e) ++ rest)).
    rewrite (PG_noconsume PI _ _ eq_refl).
    rewrite (step_quiet PI cr _ _ eq_refl (csl_create _ _ Hcr) Hg0 (or_introl Hs0)).
    (* header *)
    rewrite <- app_assoc.
    assert (Hsn : forall lv, semis_nested lv hdr = true).
    { clear Hn. induction hdr as [|tk a IH]; intros lv; [reflexivity|].
      cbn [forallb] in Hh. apply andb_true_iff in Hh. destruct Hh as [Ht Ha].
      cbn [semis_nested]. destruct (strict_not_term _ Ht) as [Hs' _]. rewrite Hs', Ht. apply IH, Ha. }
    match goal with |- context [PG ?s (hdr ++ ?r)] =>
      destruct (nested_run hdr s r (Hsn _)) as (st1 & E1 & Hi1 & Hc1 & Hl1 & Ha1 & Hcr1) end;
      [split; reflexivity|reflexivity|].
    rewrite E1. cbn [level acc ss is_create pinit] in Hl1, Ha1, Hcr1.
    specialize (Hcr1 eq_refl). destruct Hi1 as [Hb1 Hic1].
    (* BEGIN *)
    assert (HS1 : SB (ss st1) 0 0) by (unfold SB; auto).
    destruct (csl_begin _ _ _ _ Hbg HS1) as (s2 & E2 & HS2).
    cbn [app]. rewrite (PG_noconsume _ _ _ Hc1).
    rewrite (step_quiet _ _ _ _ Hc1 E2 (kwtok_go _ _ Hbg) (or_introl (kwtok_not_semi _ _ Hbg))).
    (* body *)
    rewrite <- app_assoc. cbn [app].
    match goal with |- context [PG ?s (body ++ ?r)] =>
      destruct (blk_run true body Hbody s r 1 1 0) as (st3 & E3 & [HS3 Hl3 Hc3] & Ha3) end;
      [reflexivity|lia|lia|lia|apply mk_body; [exact HS2|lia|reflexivity]|].
    rewrite E3.
    (* END *)
    destruct (csl_end _ _ 1 Hen ltac:(lia) HS3) as (s4 & E4 & HS4).
    rewrite (PG_noconsume _ _ _ Hc3).
    rewrite (step_quiet _ _ _ _ Hc3 E4 (kwtok_go _ _ Hen) (or_introl (kwtok_not_semi _ _ Hen))).
    (* ; at level 0 *)
    match goal with |- context [PG ?s (semi :: _)] =>
      rewrite (PG_noconsume s _ _ eq_refl);
      destruct (semi_step s eq_refl) as [Hc5 Ha5]; [cbn [level]; lia|];
      destruct (eos_run e (PS s semi) rest He Hc5) as (st6 & E6 & Hc6 & Ha6) end.
    exists st6. split; [exact E6|]. split; [exact Hc6|].
    rewrite Ha6, Ha5. cbn [acc]. rewrite Ha3. cbn [acc]. rewrite Ha1.
    cbn [rev]. rewrite !rev_app_distr. cbn [rev app]. rewrite !rev_app_distr. cbn [rev app].
    repeat (rewrite <- app_assoc; cbn [app]). reflexivity.
Qed.

(* ================================================================================================
   C05: tokens of non-keyword, non-punctuation types are opaque to the splitter
   ================================================================================================ *)
Definition opaque_ty (ty : ttype) : bool :=
  negb (tin ty T_Keyword) && negb (ttype_eqb ty T_Punctuation).

(* two streams that differ only in the VALUES of opaque tokens *)
Definition tok_shape (a b : tok) : Prop := fst a = fst b /\ (opaque_ty (fst a) = true \/ snd a = snd b).
Definition stream_shape (l l' : list tok) : Prop := Forall2 tok_shape l l'.

Lemma csl_shape st a b :
  tok_shape a b -> change_splitlevel st (fst a) (snd a) = change_splitlevel st (fst b) (snd b).
Proof.
  intros [Ht [Ho|Hv]]; [|rewrite Ht, Hv; reflexivity].
  unfold opaque_ty in Ho. apply andb_true_iff in Ho. destruct Ho as [Hk Hp].
  apply negb_true_iff in Hk. apply negb_true_iff in Hp.
  assert (La : is_lparen a = false) by (unfold is_lparen; rewrite Hp; reflexivity).
  assert (Ra : is_rparen a = false) by (unfold is_rparen; rewrite Hp; reflexivity).
  rewrite (csl_other st a Hk La Ra).
  rewrite Ht in Hk, Hp.
  assert (Lb : is_lparen b = false) by (unfold is_lparen; rewrite Hp; reflexivity).
  assert (Rb : is_rparen b = false) by (unfold is_rparen; rewrite Hp; reflexivity).
  rewrite (csl_other st b Hk Lb Rb). reflexivity.
Qed.

Lemma term_shape lv a b :
  tok_shape a b -> is_terminator lv (fst a) (snd a) = is_terminator lv (fst b) (snd b).
Proof.
  intros [Ht [Ho|Hv]]; [|rewrite Ht, Hv; reflexivity].
  unfold opaque_ty in Ho. apply andb_true_iff in Ho. destruct Ho as [Hk Hp].
  apply negb_true_iff in Hk. apply negb_true_iff in Hp.
  rewrite !terminator_spec. unfold is_semi, is_go. rewrite <- Ht, Hp.
  assert (X : ttype_eqb (fst a) T_Keyword = false).
  { destruct (ttype_eqb (fst a) T_Keyword) eqn:X; [|reflexivity].
    apply tin_kw_of_eq in X. unfold T_Keyword in Hk. congruence. }
  rewrite X. reflexivity.
Qed.

Definition pstate_shape (s s' : pstate) : Prop :=
  ss s = ss s' /\ consume_ws s = consume_ws s' /\ level s = level s' /\ stream_shape (acc s) (acc s').

Lemma pstep_shape s s' a b : pstate_shape s s' -> tok_shape a b -> pstate_shape (PS s a) (PS s' b).
Proof.
  intros (H1 & H2 & H3 & H4) Hab. rewrite !pstep_eq, <- H1, <- H2, <- H3, <- (csl_shape _ _ _ Hab).
  destruct (change_splitlevel (ss s) (fst a) (snd a)) as [s1 d].
  rewrite <- (term_shape _ _ _ Hab). repeat split; cbn; auto. constructor; assumption.
Qed.

Lemma stream_shape_rev l l' : stream_shape l l' -> stream_shape (rev l) (rev l').
Proof.
  induction 1 as [|a b l l' Hab _ IH]; [constructor|]. cbn [rev].
  apply Forall2_app; [exact IH|constructor; [exact Hab|constructor]].
Qed.

Lemma shape_ws l l' : stream_shape l l' -> forallb is_ws_tok l = forallb is_ws_tok l'.
Proof.
  induction 1 as [|a b l l' [Hab _] _ IH]; [reflexivity|]. cbn [forallb].
  unfold is_ws_tok at 1 3. rewrite Hab, IH. reflexivity.
Qed.

Lemma process_go_shape : forall l l', stream_shape l l' -> forall s s', pstate_shape s s' ->
  Forall2 stream_shape (PG s l) (PG s' l').
Proof.
  induction 1 as [|a b l l' Hab _ IH]; intros s s' Hs.
  - cbn [process_go]. destruct Hs as (_ & _ & _ & H4).
    destruct (acc s) as [|x r] eqn:Ea; destruct (acc s') as [|y r'] eqn:Eb;
      try (inversion H4; fail); [constructor|].
    rewrite (shape_ws _ _ H4).
    destruct (forallb is_ws_tok (y :: r')); [constructor|].
    constructor; [|constructor]. apply (stream_shape_rev _ _ H4).
  - cbn [process_go]. destruct Hs as (H1 & H2 & H3 & H4).
    destruct Hab as [Hty Hv]. rewrite <- H2, <- Hty.
    destruct (consume_ws s && negb (EOS (fst a))).
    + constructor; [apply stream_shape_rev, H4|].
      apply IH. apply pstep_shape; [|split; assumption].
      repeat split; constructor.
    + apply IH. apply pstep_shape; [|split; assumption]. repeat split; assumption.
Qed.

(* Replacing the contents of string literals, quoted names, dollar-quoted bodies and comments (any
   token whose type is neither Keyword.* nor Punctuation) leaves the number and the extent (in
   tokens) of the statements unchanged. *)
Theorem opaque_values_irrelevant l l' :
  stream_shape l l' ->
  Forall2 stream_shape (process reset_sstate change_splitlevel eos_ttypes is_terminator l)
                       (process reset_sstate change_splitlevel eos_ttypes is_terminator l').
Proof.
  intros H. apply process_go_shape; [exact H|]. repeat split; constructor.
Qed.
