(* Model of StatementSplitter.process: the loop is hand-written, its decision tables are the
   section variables instantiated with Gen/SplitTab.v.  No proofs here. *)
From SqlModel Require Import Base PyStr SplitDefs.

Section Splitter.
Variable reset : sstate.
Variable change : sstate -> ttype -> text -> sstate * Z.
Variable eos : list ttype.
Variable terminator : Z -> ttype -> text -> bool.

Record pstate := { ss : sstate; consume_ws : bool; acc : list tok (* reversed *); level : Z }.

Definition pinit : pstate := {| ss := reset; consume_ws := false; acc := []; level := 0%Z |}.

Definition in_eos (ty : ttype) : bool := existsb (ttype_eqb ty) eos.

(* one token appended to the current statement *)
Definition pstep (st : pstate) (tk : tok) : pstate :=
  let '(ty, v) := tk in
  let '(s', d) := change (ss st) ty v in
  let lv := (level st + d)%Z in
  {| ss := s'; consume_ws := consume_ws st || terminator lv ty v; acc := tk :: acc st; level := lv |}.

Fixpoint process_go (st : pstate) (stream : list tok) : list (list tok) :=
  match stream with
  | [] =>
      match acc st with
      | [] => []
      | _ :: _ => if forallb is_ws_tok (acc st) then [] else [rev (acc st)]
      end
  | tk :: rest =>
      if consume_ws st && negb (in_eos (fst tk))
      then rev (acc st) :: process_go (pstep pinit tk) rest
      else process_go (pstep st tk) rest
  end.

Definition process (stream : list tok) : list (list tok) := process_go pinit stream.

(* the trailing tokens process drops: a final all-whitespace statement *)
Fixpoint dropped_go (st : pstate) (stream : list tok) : list tok :=
  match stream with
  | [] =>
      match acc st with
      | [] => []
      | _ :: _ => if forallb is_ws_tok (acc st) then rev (acc st) else []
      end
  | tk :: rest =>
      if consume_ws st && negb (in_eos (fst tk))
      then dropped_go (pstep pinit tk) rest
      else dropped_go (pstep st tk) rest
  end.

Definition dropped (stream : list tok) : list tok := dropped_go pinit stream.

End Splitter.
