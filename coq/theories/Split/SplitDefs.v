(* Definitions the generated splitter tables (Gen/SplitTab.v) are written in. *)
From SqlModel Require Import Base PyStr.
From Coq Require Export ZArith.

(* _case_depth: how many CASE expressions are open (a counter since the fix of finding F39; the flag _in_case before) *)
Record sstate := { in_declare : bool; case_depth : Z; is_create : bool; begin_depth : Z }.

Fixpoint text_prefixb (p t : text) : bool :=
  match p, t with
  | [], _ => true
  | a :: p', b :: t' => N.eqb a b && text_prefixb p' t'
  | _ :: _, [] => false
  end.

Fixpoint take_word (sp : cset) (t : text) : text :=
  match t with
  | c :: t' => if cmem c sp then [] else c :: take_word sp t'
  | [] => []
  end.

(* value.split()[0] -- [] when there is no word (Python raises IndexError there; the splitter only
   evaluates it on Keyword tokens, which always contain a non-space character) *)
Definition first_word (sp : cset) (t : text) : text := take_word sp (lstrip sp t).

Definition is_ws_tok (tk : tok) : bool := tin (fst tk) T_Whitespace.
