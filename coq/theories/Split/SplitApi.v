(* Model of sqlparse.split(sql, strip_semicolon):
     [str(stmt).strip() for stmt in FilterStack(strip_semicolon).run(sql)]
   (lexer -> StatementSplitter -> optional StripTrailingSemicolonFilter -> str().strip(), no grouping)
   and the executable checks on character sets / rules that the facts about it use.
   Definitions only; proofs are in Split/SplitApiFacts.v. *)
From SqlModel Require Import Base PyStr Re Lexer SplitDefs Splitter.
From SqlModel.Gen Require Import CaseTabs.
From SqlModel.Inst Require Import Cur.

(* ---- StripTrailingSemicolonFilter.process -------------------------------------------------
     while stmt.tokens and (stmt.tokens[-1].is_whitespace or stmt.tokens[-1].value == ';'):
         stmt.tokens.pop()
   the value is compared whatever the token type is *)
Definition semi_or_ws (tk : tok) : bool := is_ws_tok tk || text_eqb (snd tk) [59%N].

Fixpoint drop_while_tok (f : tok -> bool) (l : list tok) : list tok :=
  match l with
  | tk :: l' => if f tk then drop_while_tok f l' else l
  | [] => []
  end.

Definition strip_trailing_semicolon (s : list tok) : list tok :=
  rev (drop_while_tok semi_or_ws (rev s)).

(* str(stmt) of an ungrouped statement: the token values joined *)
Definition stmt_text (s : list tok) : text := flat_map snd s.

Definition piece_of (strip_semicolon : bool) (s : list tok) : text :=
  strip space_set (stmt_text (if strip_semicolon then strip_trailing_semicolon s else s)).

Definition cur_split (strip_semicolon : bool) (t : text) : res (list text) :=
  stmts <- cur_split_stream t ;; Ok (map (piece_of strip_semicolon) stmts).

(* ---- "pieces at increasing positions with whitespace-only gaps" ---------------------------
   interleave [g0; g1; ...; gn] [p1; ...; pn] = g0 ++ p1 ++ g1 ++ ... ++ pn ++ gn *)
Fixpoint interleave (gaps ps : list text) : text :=
  match gaps, ps with
  | g :: gaps', p :: ps' => g ++ p ++ interleave gaps' ps'
  | g :: _, [] => g
  | [], _ => []
  end.

Definition has_nonspace (sp : cset) (t : text) : bool := existsb (fun c => negb (cmem c sp)) t.

(* ---- deciding universally quantified statements about two character sets -------------------
   both decision trees are constant between consecutive pivots: test 0 and every pivot *)
Fixpoint pivots (s : cset) : list N :=
  match s with
  | CLeaf _ => []
  | CNode p l r => p :: pivots l ++ pivots r
  end.

Definition cforall2 (f : bool -> bool -> bool) (a b : cset) : bool :=
  forallb (fun p => f (cmem p a) (cmem p b)) (0%N :: pivots a ++ pivots b).

Definition cdisjoint (a b : cset) : bool := cforall2 (fun x y => negb (x && y)) a b.
Definition csubset (a b : cset) : bool := cforall2 implb a b.

(* every match of r consumes at least one character outside sp (sound, not complete) *)
Fixpoint must_have_nonspace (sp : cset) (r : re) : bool :=
  match r with
  | Atom s => cdisjoint s sp
  | Seq a b => must_have_nonspace sp a || must_have_nonspace sp b
  | Alt a b => must_have_nonspace sp a && must_have_nonspace sp b
  | Group _ r' => must_have_nonspace sp r'
  | Rep _ lo _ r' => Nat.leb 1 lo && must_have_nonspace sp r'
  | _ => false
  end.

(* every match of r consumes only characters of sp (sound, not complete) *)
Fixpoint only_in (sp : cset) (r : re) : bool :=
  match r with
  | Eps => true
  | Atom s => csubset s sp
  | Seq a b | Alt a b => only_in sp a && only_in sp b
  | Group _ r' | Rep _ _ _ r' => only_in sp r'
  | Backref _ => false
  | Ahead _ _ | Behind _ _ | Bound _ | AtEnd => true
  end.

Definition emits_ws (a : action) : bool :=
  match a with Emit ty => tin ty T_Whitespace | AsKeyword => false end.

(* a rule either emits a whitespace-typed token or all its matches contain a non-space character *)
Definition rule_nonspace_ok (sp : cset) (ra : rule) : bool :=
  emits_ws (snd ra) || must_have_nonspace sp (fst ra).
(* a rule that emits a whitespace-typed token matches space characters only *)
Definition rule_ws_ok (sp : cset) (ra : rule) : bool :=
  negb (emits_ws (snd ra)) || only_in sp (fst ra).
(* the keyword dictionaries never produce a whitespace type *)
Definition kws_no_ws (ds : list kwdict) : bool :=
  forallb (fun d => forallb (fun e => negb (tin (snd e) T_Whitespace)) d) ds.
(* some rule matches whenever the next character is a space character *)
Definition is_space_rule (sp : cset) (ra : rule) : bool :=
  match fst ra with
  | Atom s => csubset sp s
  | Rep _ 1 None (Atom s) => csubset sp s
  | _ => false
  end.

(* the rules that do not satisfy must_have_nonspace, by index (for reporting) *)
Fixpoint failing_rules (sp : cset) (i : nat) (rs : list rule) : list nat :=
  match rs with
  | [] => []
  | ra :: rs' => (if must_have_nonspace sp (fst ra) then [] else [i]) ++ failing_rules sp (S i) rs'
  end.

(* leading / trailing whitespace-typed tokens removed *)
Definition trim_ws (s : list tok) : list tok :=
  rev (drop_while_tok is_ws_tok (rev (drop_while_tok is_ws_tok s))).
