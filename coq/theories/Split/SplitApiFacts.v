(* Facts about the model of sqlparse.split() (Split/SplitApi.v). *)
From SqlModel Require Import Base PyStr Re MinWidth Lexer LexFacts SplitDefs Splitter SplitFacts
     Node Inv Passes GroupFacts.
From SqlModel.Gen Require Import CaseTabs KwTabs Rules SplitTab.
From SqlModel.Inst Require Import Cur C01 ParseFacts.
From SqlModel.Split Require Import SplitApi.

(* ================================================================================================
   A. deciding statements about two character sets by testing 0 and every pivot
   ============================================================================================== *)
Lemma cmem_same_side s : forall c d,
  (forall p, In p (pivots s) -> N.ltb c p = N.ltb d p) -> cmem c s = cmem d s.
Proof.
  induction s as [b | p l IHl r IHr]; intros c d H; cbn [cmem]; [reflexivity|].
  cbn [pivots] in H. rewrite <- (H p (or_introl eq_refl)).
  destruct (N.ltb c p).
  - apply IHl. intros q Hq. apply H. right. apply in_or_app. left. exact Hq.
  - apply IHr. intros q Hq. apply H. right. apply in_or_app. right. exact Hq.
Qed.

(* the largest element of 0 :: L that is <= c *)
Fixpoint floorp (c : N) (L : list N) : N :=
  match L with
  | [] => 0%N
  | p :: L' => if N.leb p c then N.max p (floorp c L') else floorp c L'
  end.

Lemma floorp_le c L : (floorp c L <= c)%N.
Proof.
  induction L as [|p L IH]; cbn [floorp]; [apply N.le_0_l|].
  destruct (N.leb_spec p c) as [Hle|Hgt]; [apply N.max_lub; assumption | assumption].
Qed.

Lemma floorp_in c L : floorp c L = 0%N \/ In (floorp c L) L.
Proof.
  induction L as [|p L IH]; cbn [floorp]; [left; reflexivity|].
  destruct (N.leb p c).
  - destruct (N.max_spec p (floorp c L)) as [[_ E]|[_ E]]; rewrite E.
    + destruct IH as [IH|IH]; [left; exact IH | right; right; exact IH].
    + right; left; reflexivity.
  - destruct IH as [IH|IH]; [left; exact IH | right; right; exact IH].
Qed.

Lemma floorp_ub c L p : In p L -> (p <= c)%N -> (p <= floorp c L)%N.
Proof.
  induction L as [|q L IH]; intros Hin Hle; [contradiction|].
  cbn [floorp]. destruct Hin as [->|Hin].
  - apply N.leb_le in Hle. rewrite Hle. apply N.le_max_l.
  - destruct (N.leb q c).
    + etransitivity; [apply IH; assumption | apply N.le_max_r].
    + apply IH; assumption.
Qed.

Lemma floorp_side c L p : In p L -> N.ltb c p = N.ltb (floorp c L) p.
Proof.
  intros Hin. destruct (N.ltb_spec c p) as [Hlt|Hge].
  - symmetry. apply N.ltb_lt. eapply N.le_lt_trans; [apply floorp_le | exact Hlt].
  - symmetry. apply N.ltb_ge. apply floorp_ub; assumption.
Qed.

Theorem cforall2_sound f a b :
  cforall2 f a b = true -> forall c, f (cmem c a) (cmem c b) = true.
Proof.
  unfold cforall2. intros H c. rewrite forallb_forall in H.
  set (L := pivots a ++ pivots b) in *.
  assert (Ea : cmem c a = cmem (floorp c L) a).
  { apply cmem_same_side. intros p Hp. apply floorp_side. apply in_or_app. left. exact Hp. }
  assert (Eb : cmem c b = cmem (floorp c L) b).
  { apply cmem_same_side. intros p Hp. apply floorp_side. apply in_or_app. right. exact Hp. }
  rewrite Ea, Eb. apply H.
  destruct (floorp_in c L) as [E|Hin]; [left; symmetry; exact E | right; exact Hin].
Qed.

Lemma cdisjoint_sound a b : cdisjoint a b = true -> forall c, cmem c a = true -> cmem c b = false.
Proof.
  intros H c Ha. unfold cdisjoint in H. pose proof (cforall2_sound _ _ _ H c) as H'.
  cbv beta in H'. rewrite Ha in H'. destruct (cmem c b); [discriminate | reflexivity].
Qed.

Lemma csubset_sound a b : csubset a b = true -> forall c, cmem c a = true -> cmem c b = true.
Proof.
  intros H c Ha. unfold csubset in H. pose proof (cforall2_sound _ _ _ H c) as H'.
  rewrite Ha in H'. exact H'.
Qed.

(* ================================================================================================
   B. texts: has_nonspace / all_space / strip
   ============================================================================================== *)
Section Texts.
Variable sp : cset.

Lemma has_nonspace_negb t : has_nonspace sp t = negb (all_space sp t).
Proof.
  unfold has_nonspace, all_space. induction t as [|c t IH]; [reflexivity|].
  cbn [existsb forallb]. rewrite IH. destruct (cmem c sp); reflexivity.
Qed.

Lemma has_nonspace_app a b : has_nonspace sp (a ++ b) = has_nonspace sp a || has_nonspace sp b.
Proof. apply existsb_app. Qed.

Lemma all_space_app a b : all_space sp (a ++ b) = all_space sp a && all_space sp b.
Proof. unfold all_space. apply forallb_app. Qed.

Lemma all_space_rev a : all_space sp (rev a) = all_space sp a.
Proof.
  induction a as [|c a IH]; [reflexivity|].
  cbn [rev]. rewrite all_space_app, IH. cbn [all_space forallb]. rewrite andb_true_r. apply andb_comm.
Qed.

Lemma lstrip_split t : exists l, t = l ++ lstrip sp t /\ all_space sp l = true.
Proof.
  induction t as [|c t (l & E & A)]; [exists []; split; reflexivity|].
  cbn [lstrip]. destruct (cmem c sp) eqn:Ec.
  - exists (c :: l). split; [cbn [app]; f_equal; exact E|].
    cbn [all_space forallb]. rewrite Ec. exact A.
  - exists []. split; reflexivity.
Qed.

Lemma lstrip_head t c u : lstrip sp t = c :: u -> cmem c sp = false.
Proof.
  induction t as [|d t IH]; cbn [lstrip]; [discriminate|].
  destruct (cmem d sp) eqn:Ed; [exact IH|]. intros H. injection H as <- _. exact Ed.
Qed.

Lemma lstrip_id t : match t with c :: _ => cmem c sp = false | [] => True end -> lstrip sp t = t.
Proof. destruct t as [|c t]; [reflexivity|]. intros H. cbn [lstrip]. rewrite H. reflexivity. Qed.

Lemma lstrip_idem t : lstrip sp (lstrip sp t) = lstrip sp t.
Proof.
  apply lstrip_id. destruct (lstrip sp t) as [|c u] eqn:E; [exact I|]. eapply lstrip_head; exact E.
Qed.

Lemma rstrip_split t : exists r, t = rstrip sp t ++ r /\ all_space sp r = true.
Proof.
  unfold rstrip. destruct (lstrip_split (rev t)) as (l & E & A).
  exists (rev l). split; [|rewrite all_space_rev; exact A].
  rewrite <- rev_app_distr, <- E, rev_involutive. reflexivity.
Qed.

Lemma rstrip_idem t : rstrip sp (rstrip sp t) = rstrip sp t.
Proof. unfold rstrip. rewrite rev_involutive, lstrip_idem. reflexivity. Qed.

Lemma strip_split t : exists l r,
  t = l ++ strip sp t ++ r /\ all_space sp l = true /\ all_space sp r = true.
Proof.
  unfold strip. destruct (lstrip_split t) as (l & El & Al).
  destruct (rstrip_split (lstrip sp t)) as (r & Er & Ar).
  exists l, r. split; [|split; assumption]. rewrite <- Er. exact El.
Qed.

Lemma strip_nonempty t : has_nonspace sp t = true -> strip sp t <> [].
Proof.
  intros H E. destruct (strip_split t) as (l & r & Et & Al & Ar).
  rewrite E in Et. cbn [app] in Et. rewrite Et, has_nonspace_negb, all_space_app, Al, Ar in H.
  discriminate.
Qed.

(* a text without leading / trailing whitespace is a fixed point of strip *)
Lemma lstrip_rstrip_fix u : lstrip sp u = u -> lstrip sp (rstrip sp u) = rstrip sp u.
Proof.
  intros Hu. apply lstrip_id.
  destruct (rstrip sp u) as [|c v] eqn:E; [exact I|].
  destruct (rstrip_split u) as (r & Er & _). rewrite E in Er.
  rewrite Er in Hu. cbn [app] in Hu. eapply lstrip_head. exact Hu.
Qed.

Theorem strip_idem t : strip sp (strip sp t) = strip sp t.
Proof.
  unfold strip. rewrite (lstrip_rstrip_fix (lstrip sp t) (lstrip_idem t)). apply rstrip_idem.
Qed.

Lemma strip_lstrip_fix t : lstrip sp (strip sp t) = strip sp t.
Proof. unfold strip. apply lstrip_rstrip_fix, lstrip_idem. Qed.

Lemma strip_rstrip_fix t : rstrip sp (strip sp t) = strip sp t.
Proof. unfold strip. apply rstrip_idem. Qed.

(* a left gap of a text without leading whitespace is empty (unless the text is all gap) *)
Lemma tight_left p g x : lstrip sp p = p -> p = g ++ x -> all_space sp g = true -> x <> [] -> g = [].
Proof.
  intros Hp E Hg Hx. destruct g as [|c g]; [reflexivity|]. exfalso.
  cbn [all_space forallb] in Hg. apply andb_true_iff in Hg. destruct Hg as [Hc Hg].
  rewrite E in Hp. cbn [app lstrip] in Hp. rewrite Hc in Hp.
  destruct (lstrip_split (g ++ x)) as (l & El & _).
  apply (f_equal (@length _)) in Hp. apply (f_equal (@length _)) in El.
  cbn [length] in Hp. rewrite (app_length l) in El. lia.
Qed.

Lemma tight_right p g x : rstrip sp p = p -> p = x ++ g -> all_space sp g = true -> x <> [] -> g = [].
Proof.
  intros Hp E Hg Hx. unfold rstrip in Hp.
  assert (Hp' : lstrip sp (rev p) = rev p) by (rewrite <- Hp at 2; rewrite rev_involutive; reflexivity).
  assert (Hr : rev g = []).
  { apply (tight_left (rev p) (rev g) (rev x) Hp').
    - rewrite E, rev_app_distr. reflexivity.
    - rewrite all_space_rev. exact Hg.
    - intro H. apply Hx. rewrite <- (rev_involutive x), H. reflexivity. }
  rewrite <- (rev_involutive g), Hr. reflexivity.
Qed.

End Texts.

(* ================================================================================================
   C. soundness of must_have_nonspace / only_in w.r.t. the matcher
   ============================================================================================== *)
Lemma app_eq_len {A} (v w t r : list A) : v ++ t = w ++ r -> length v = length w -> v = w /\ t = r.
Proof.
  revert w; induction v as [|a v IH]; intros [|b w] E L; simpl in *; try discriminate.
  - split; [reflexivity | exact E].
  - injection E as -> E. injection L as L. destruct (IH w E L) as [-> ->]. split; reflexivity.
Qed.

Section ReSound.
Variable lower : N -> N.
Variable sp : cset.

Lemma adv0_consumed x x' : adv 0 x x' -> exists w, rest x = w ++ rest x'.
Proof. intros (w & E & _). exists w. exact E. Qed.

Lemma iter_first (body : st -> caps -> list result) g lo hi fuel count x c x' c' :
  count < lo -> In (x', c') (Re.iter body g lo hi fuel count x c) ->
  exists x1 c1 f, In (x1, c1) (body x c) /\ In (x', c') (Re.iter body g lo hi f (S count) x1 c1).
Proof.
  intros Hlt H. destruct fuel as [|f]; cbn [Re.iter] in H.
  - assert (E : Nat.leb lo count = false) by (apply Nat.leb_gt; exact Hlt). rewrite E in H.
    destruct g; cbn [app] in H; contradiction.
  - assert (E : Nat.leb lo count = false) by (apply Nat.leb_gt; exact Hlt). rewrite E in H.
    assert (Hm : In (x', c')
                    (if match hi with Some h => Nat.ltb count h | None => true end
                     then flat_map (fun xc => Re.iter body g lo hi f (S count) (fst xc) (snd xc)) (body x c)
                     else [])).
    { destruct g; [rewrite app_nil_r in H | rewrite app_nil_l in H]; exact H. }
    destruct (match hi with Some h => Nat.ltb count h | None => true end); [|contradiction].
    apply in_flat_map in Hm. destruct Hm as ([x1 c1] & Hin & Hrec). cbn [fst snd] in Hrec.
    exists x1, c1, f. split; assumption.
Qed.

Theorem mhn_sound r : must_have_nonspace sp r = true ->
  forall x c x' c', In (x', c') (ends lower r x c) ->
  exists w, rest x = w ++ rest x' /\ has_nonspace sp w = true.
Proof.
  induction r as [| s | a IHa b IHb | a IHa b IHb | g lo hi r IH | n r IH | n | neg r IH
                 | neg s | w | ]; intros Hm x c x' c' H; cbn [must_have_nonspace] in Hm;
    try discriminate; cbn [ends] in H.
  - (* Atom *)
    destruct (rest x) as [|ch tl] eqn:E; [contradiction|].
    destruct (cmem ch s) eqn:Es; [|contradiction].
    destruct H as [H|[]]. injection H as <- <-. exists [ch]. split; [reflexivity|].
    cbn [has_nonspace existsb]. rewrite (cdisjoint_sound _ _ Hm ch Es). reflexivity.
  - (* Seq *)
    apply in_flat_map in H. destruct H as ([x1 c1] & H1 & H2). cbn [fst snd] in H2.
    apply orb_true_iff in Hm. destruct Hm as [Hm|Hm].
    + destruct (IHa Hm _ _ _ _ H1) as (w1 & E1 & N1).
      apply ends_adv in H2. apply adv_weaken with (m := 0) in H2; [|lia].
      destruct (adv0_consumed _ _ H2) as (w2 & E2).
      exists (w1 ++ w2). rewrite <- app_assoc, <- E2. split; [exact E1|].
      rewrite has_nonspace_app, N1. reflexivity.
    + destruct (IHb Hm _ _ _ _ H2) as (w2 & E2 & N2).
      apply ends_adv in H1. apply adv_weaken with (m := 0) in H1; [|lia].
      destruct (adv0_consumed _ _ H1) as (w1 & E1).
      exists (w1 ++ w2). rewrite <- app_assoc, <- E2. split; [exact E1|].
      rewrite has_nonspace_app, N2. apply orb_true_r.
  - (* Alt *)
    apply andb_true_iff in Hm. destruct Hm as [Ha Hb].
    apply in_app_or in H. destruct H as [H|H]; [eapply IHa | eapply IHb]; eassumption.
  - (* Rep *)
    apply andb_true_iff in Hm. destruct Hm as [Hlo Hm]. apply Nat.leb_le in Hlo.
    apply iter_first in H; [|lia]. destruct H as (x1 & c1 & f & H1 & H2).
    destruct (IH Hm _ _ _ _ H1) as (w1 & E1 & N1).
    eapply iter_adv with (k := 0) in H2.
    2:{ intros y d y' d' Hy. apply ends_adv in Hy. eapply adv_weaken; [exact Hy | lia]. }
    apply adv_weaken with (m := 0) in H2; [|lia].
    destruct (adv0_consumed _ _ H2) as (w2 & E2).
    exists (w1 ++ w2). rewrite <- app_assoc, <- E2. split; [exact E1|].
    rewrite has_nonspace_app, N1. reflexivity.
  - (* Group *)
    apply in_map_iff in H. destruct H as ([x1 c1] & E & H). cbn [fst snd] in E.
    injection E as <- _. eapply IH; eassumption.
Qed.

Lemma iter_only (body : st -> caps -> list result) :
  (forall x c x' c', In (x', c') (body x c) ->
     exists w, rest x = w ++ rest x' /\ all_space sp w = true) ->
  forall g lo hi fuel count x c x' c',
    In (x', c') (Re.iter body g lo hi fuel count x c) ->
    exists w, rest x = w ++ rest x' /\ all_space sp w = true.
Proof.
  intros Hb g lo hi fuel.
  induction fuel as [|f IH]; intros count x c x' c' H; cbn [Re.iter] in H.
  - assert (Hs : In (x', c') (if Nat.leb lo count then [(x, c)] else [])).
    { destruct g; [rewrite app_nil_l in H | rewrite app_nil_r in H]; exact H. }
    destruct (Nat.leb lo count); [|contradiction].
    destruct Hs as [Hs|[]]. injection Hs as <- <-. exists []. split; reflexivity.
  - assert (Hor : In (x', c') (if Nat.leb lo count then [(x, c)] else []) \/
                  In (x', c')
                     (if match hi with Some h => Nat.ltb count h | None => true end
                      then flat_map (fun xc => Re.iter body g lo hi f (S count) (fst xc) (snd xc))
                                    (body x c)
                      else [])).
    { destruct g; apply in_app_or in H; tauto. }
    destruct Hor as [Hs|Hm].
    + destruct (Nat.leb lo count); [|contradiction].
      destruct Hs as [Hs|[]]. injection Hs as <- <-. exists []. split; reflexivity.
    + destruct (match hi with Some h => Nat.ltb count h | None => true end); [|contradiction].
      apply in_flat_map in Hm. destruct Hm as ([x1 c1] & Hin & Hrec). cbn [fst snd] in Hrec.
      destruct (Hb _ _ _ _ Hin) as (w1 & E1 & A1).
      destruct (IH _ _ _ _ _ Hrec) as (w2 & E2 & A2).
      exists (w1 ++ w2). rewrite <- app_assoc, <- E2. split; [exact E1|].
      rewrite all_space_app, A1, A2. reflexivity.
Qed.

Theorem only_in_sound r : only_in sp r = true ->
  forall x c x' c', In (x', c') (ends lower r x c) ->
  exists w, rest x = w ++ rest x' /\ all_space sp w = true.
Proof.
  induction r as [| s | a IHa b IHb | a IHa b IHb | g lo hi r IH | n r IH | n | neg r IH
                 | neg s | w | ]; intros Hm x c x' c' H; cbn [only_in] in Hm;
    try discriminate; cbn [ends] in H.
  - destruct H as [H|[]]. injection H as <- <-. exists []. split; reflexivity.
  - destruct (rest x) as [|ch tl] eqn:E; [contradiction|].
    destruct (cmem ch s) eqn:Es; [|contradiction].
    destruct H as [H|[]]. injection H as <- <-. exists [ch]. split; [reflexivity|].
    cbn [all_space forallb]. rewrite (csubset_sound _ _ Hm ch Es). reflexivity.
  - apply andb_true_iff in Hm. destruct Hm as [Ha Hb].
    apply in_flat_map in H. destruct H as ([x1 c1] & H1 & H2). cbn [fst snd] in H2.
    destruct (IHa Ha _ _ _ _ H1) as (w1 & E1 & A1).
    destruct (IHb Hb _ _ _ _ H2) as (w2 & E2 & A2).
    exists (w1 ++ w2). rewrite <- app_assoc, <- E2. split; [exact E1|].
    rewrite all_space_app, A1, A2. reflexivity.
  - apply andb_true_iff in Hm. destruct Hm as [Ha Hb].
    apply in_app_or in H. destruct H as [H|H]; [eapply IHa | eapply IHb]; eassumption.
  - eapply iter_only; [|exact H]. intros y d y' d' Hy. eapply IH; eassumption.
  - apply in_map_iff in H. destruct H as ([x1 c1] & E & H). cbn [fst snd] in E.
    injection E as <- _. eapply IH; eassumption.
  - destruct (ends lower r x c), neg; try contradiction;
      destruct H as [H|[]]; injection H as <- <-; exists []; split; reflexivity.
  - destruct (Bool.eqb _ _); [|contradiction].
    destruct H as [H|[]]. injection H as <- <-. exists []. split; reflexivity.
  - destruct (xorb _ _); [|contradiction].
    destruct H as [H|[]]. injection H as <- <-. exists []. split; reflexivity.
  - destruct (at_end (rest x)); [|contradiction].
    destruct H as [H|[]]. injection H as <- <-. exists []. split; reflexivity.
Qed.

(* what a successful re.match consumed *)
Lemma rmatch_consumed r x k : rmatch lower r x = Some k ->
  exists x' c', In (x', c') (ends lower r x []) /\ k = length (rest x) - length (rest x').
Proof.
  unfold rmatch. destruct (ends lower r x []) as [|[x' c'] l] eqn:E; [discriminate|].
  intros H. injection H as <-. exists x', c'. split; [left; reflexivity | reflexivity].
Qed.

Lemma consumed_firstn (x x' : st) (w v t' : text) k :
  rest x = w ++ rest x' -> k = length (rest x) - length (rest x') ->
  rest x = v ++ t' -> length v = k -> v = w.
Proof.
  intros E Hk Ev Lv. rewrite E in Hk. rewrite app_length in Hk.
  assert (Lw : length v = length w) by lia.
  rewrite E in Ev. symmetry in Ev. destruct (app_eq_len _ _ _ _ Ev Lw) as [Hv _]. exact Hv.
Qed.

Lemma iter_stop_in (body : st -> caps -> list result) g lo hi fuel count x c :
  lo <= count -> In (x, c) (Re.iter body g lo hi fuel count x c).
Proof.
  intros Hle. apply Nat.leb_le in Hle.
  destruct fuel as [|f]; cbn [Re.iter]; rewrite Hle; destruct g; apply in_or_app;
    first [left; left; reflexivity | right; left; reflexivity].
Qed.

Lemma space_rule_matches (ra : rule) p ch tl :
  is_space_rule sp ra = true -> cmem ch sp = true ->
  rmatch lower (fst ra) (mkSt p (ch :: tl)) <> None.
Proof.
  unfold is_space_rule. intros Hr Hc.
  assert (Hne : forall r, (exists xc, In xc (ends lower r (mkSt p (ch :: tl)) [])) ->
                          rmatch lower r (mkSt p (ch :: tl)) <> None).
  { intros r (xc & Hin). unfold rmatch.
    destruct (ends lower r (mkSt p (ch :: tl)) []) as [|[x' c'] l]; [contradiction | discriminate]. }
  destruct (fst ra) as [| s | a b | a b | g lo hi r | n r | n | neg r | neg s | w | ];
    try discriminate.
  - apply Hne. cbn [ends rest]. rewrite (csubset_sound _ _ Hr ch Hc). eexists. left. reflexivity.
  - destruct lo as [|[|lo]]; try discriminate. destruct hi as [h|]; [discriminate|].
    destruct r as [| s | a b | a b | g' lo' hi' r | n r | n | neg r | neg s | w | ];
      try discriminate.
    apply Hne. cbn [ends rep_fuel rest length Re.iter Nat.leb].
    exists (mkSt (Some ch) tl, @nil (nat * text)).
    assert (Hin : In (mkSt (Some ch) tl, @nil (nat * text))
                    (flat_map (fun xc => Re.iter (ends lower (Atom s)) g 1 None (S (length tl)) 1 (fst xc) (snd xc))
                              (ends lower (Atom s) (mkSt p (ch :: tl)) []))).
    { apply in_flat_map. exists (mkSt (Some ch) tl, @nil (nat * text)). split.
      - cbn [ends rest]. rewrite (csubset_sound _ _ Hr ch Hc). left. reflexivity.
      - cbn [fst snd]. apply iter_stop_in. lia. }
    destruct g; [rewrite app_nil_r | rewrite app_nil_l]; exact Hin.
Qed.

End ReSound.

(* ================================================================================================
   D. tokens of the lexer: whitespace-typed tokens consist of space characters, every other token
      contains a character that is not a space character
   ============================================================================================== *)
Definition tok_good (sp : cset) (tk : tok) : Prop :=
  (is_ws_tok tk = true -> all_space sp (snd tk) = true) /\
  (is_ws_tok tk = false -> has_nonspace sp (snd tk) = true).

Section LexToks.
Variable lower : N -> N.
Variable upper : text -> text.
Variable rules : list rule.
Variable kws : list kwdict.
Variable sp : cset.
Hypothesis Hns : forallb (rule_nonspace_ok sp) rules = true.
Hypothesis Hws : forallb (rule_ws_ok sp) rules = true.
Hypothesis Hkw : kws_no_ws kws = true.
Hypothesis Hsp : existsb (is_space_rule sp) rules = true.

Lemma first_match_in rs x a k : first_match lower rs x = Some (a, k) ->
  exists r, In (r, a) rs /\ rmatch lower r x = Some k.
Proof.
  induction rs as [|[r a'] rs IH]; cbn [first_match]; intros H; [discriminate|].
  destruct (rmatch lower r x) as [k'|] eqn:E.
  - injection H as <- <-. exists r. split; [left; reflexivity | exact E].
  - destruct (IH H) as (r' & Hin & Hr). exists r'. split; [right; exact Hin | exact Hr].
Qed.

Lemma first_match_none rs x : first_match lower rs x = None ->
  forall ra, In ra rs -> rmatch lower (fst ra) x = None.
Proof.
  induction rs as [|[r a'] rs IH]; cbn [first_match]; intros H ra Hin; [contradiction|].
  destruct (rmatch lower r x) as [k'|] eqn:E; [discriminate|].
  destruct Hin as [<-|Hin]; [exact E | apply IH; assumption].
Qed.

Lemma dict_find_in w d ty : dict_find w d = Some ty -> exists k, In (k, ty) d.
Proof.
  induction d as [|[k ty'] d IH]; cbn [dict_find]; [discriminate|].
  destruct (text_eqb w k).
  - intros H. injection H as <-. exists k. left. reflexivity.
  - intros H. destruct (IH H) as (k' & Hin). exists k'. right. exact Hin.
Qed.

Lemma kw_lookup_not_ws w : tin (kw_lookup w kws) T_Whitespace = false.
Proof.
  unfold kws_no_ws in Hkw. revert Hkw. generalize kws as ds.
  induction ds as [|d ds IH]; intros H; cbn [kw_lookup]; [reflexivity|].
  cbn [forallb] in H. apply andb_true_iff in H. destruct H as [Hd Hds].
  destruct (dict_find w d) as [ty|] eqn:E; [|apply IH; exact Hds].
  apply dict_find_in in E. destruct E as (k & Hin).
  rewrite forallb_forall in Hd. specialize (Hd _ Hin). cbn [snd] in Hd.
  destruct (tin ty T_Whitespace); [discriminate | reflexivity].
Qed.

Lemma mk_tok_ws a v : is_ws_tok (mk_tok upper kws a v) = emits_ws a.
Proof.
  destruct a as [ty|]; unfold is_ws_tok; cbn [mk_tok fst emits_ws]; [reflexivity|].
  apply kw_lookup_not_ws.
Qed.

Theorem LexSpec_tok_good p t toks :
  LexSpec lower upper rules kws p t toks -> Forall (tok_good sp) toks.
Proof.
  induction 1 as [p | p t a k v t' toks Hm Hk Ht Hl _ IH | p c t toks Hm _ IH].
  - constructor.
  - constructor; [|exact IH].
    destruct (first_match_in _ _ _ _ Hm) as (r & Hin & Hr).
    destruct (rmatch_consumed _ _ _ _ Hr) as (x' & c' & Hends & Ek).
    rewrite forallb_forall in Hns, Hws.
    pose proof (Hns _ Hin) as Hn. pose proof (Hws _ Hin) as Hw.
    unfold rule_nonspace_ok in Hn. unfold rule_ws_ok in Hw. cbn [fst snd] in Hn, Hw.
    split; intros Hty; rewrite mk_tok_ws in Hty; rewrite mk_tok_snd; rewrite Hty in *.
    + cbn [negb orb] in Hw.
      destruct (only_in_sound lower sp r Hw _ _ _ _ Hends) as (w & Ew & Aw).
      rewrite (consumed_firstn _ _ w v t' k Ew Ek Ht Hl). exact Aw.
    + cbn [orb] in Hn.
      destruct (mhn_sound lower sp r Hn _ _ _ _ Hends) as (w & Ew & Nw).
      rewrite (consumed_firstn _ _ w v t' k Ew Ek Ht Hl). exact Nw.
  - constructor; [|exact IH]. split; intros Hty; [discriminate|].
    cbn [snd has_nonspace existsb]. destruct (cmem c sp) eqn:Ec; [|reflexivity].
    exfalso. apply existsb_exists in Hsp. destruct Hsp as (ra & Hin & Hra).
    eapply (space_rule_matches lower sp ra p c t Hra Ec).
    apply (first_match_none _ _ Hm ra Hin).
Qed.

End LexToks.

(* ================================================================================================
   E. the splitter: every yielded statement contains a token that is not whitespace-typed, and
      feeding a yielded statement to the splitter again yields exactly that statement
   ============================================================================================== *)
Definition has_nonws (l : list tok) : bool := existsb (fun tk => negb (is_ws_tok tk)) l.

Lemma has_nonws_forallb l : forallb is_ws_tok l = negb (has_nonws l).
Proof.
  unfold has_nonws. induction l as [|tk l IH]; [reflexivity|].
  cbn [forallb existsb]. rewrite IH. destruct (is_ws_tok tk); reflexivity.
Qed.

Lemma has_nonws_app a b : has_nonws (a ++ b) = has_nonws a || has_nonws b.
Proof. apply existsb_app. Qed.

Lemma has_nonws_rev a : has_nonws (rev a) = has_nonws a.
Proof.
  induction a as [|tk a IH]; [reflexivity|].
  cbn [rev]. rewrite has_nonws_app, IH. cbn [has_nonws existsb]. rewrite orb_false_r. apply orb_comm.
Qed.

Lemma has_nonws_all_ws l : Forall (fun tk => is_ws_tok tk = true) l -> has_nonws l = false.
Proof.
  induction 1 as [|tk l H _ IH]; [reflexivity|]. cbn [has_nonws existsb]. rewrite H. exact IH.
Qed.

Section SplitterMore.
Variable reset : sstate.
Variable change : sstate -> ttype -> text -> sstate * Z.
Variable eos : list ttype.
Variable terminator : Z -> ttype -> text -> bool.
(* a terminator token is never whitespace-typed *)
Hypothesis Hterm : forall lv ty v, terminator lv ty v = true -> is_ws_tok (ty, v) = false.

Notation process_go := (process_go reset change eos terminator).
Notation process := (process reset change eos terminator).
Notation pstep := (pstep change terminator).
Notation pinit := (pinit reset).

(* no split happens while the tokens of l are fed from state st *)
Fixpoint quiet (st : pstate) (l : list tok) : bool :=
  match l with
  | [] => true
  | tk :: l' => negb (consume_ws st && negb (in_eos eos (fst tk))) && quiet (pstep st tk) l'
  end.

Definition run (st : pstate) (l : list tok) : pstate := fold_left pstep l st.

Definition inv (st : pstate) : Prop := consume_ws st = true -> has_nonws (acc st) = true.

Lemma pstep_consume st tk :
  consume_ws (pstep st tk) = consume_ws st || terminator (level (pstep st tk)) (fst tk) (snd tk).
Proof. unfold pstep. destruct tk as [ty v]. destruct (change (ss st) ty v). reflexivity. Qed.

Lemma inv_pstep st tk : inv st -> inv (pstep st tk).
Proof.
  unfold inv. intros Hi Hc. rewrite pstep_acc. cbn [has_nonws existsb].
  rewrite pstep_consume in Hc. apply orb_true_iff in Hc. destruct Hc as [Hc|Hc].
  - apply Hi in Hc. unfold has_nonws in Hc. rewrite Hc. apply orb_true_r.
  - apply Hterm in Hc. destruct tk as [ty v]. cbn [fst snd] in Hc. rewrite Hc. reflexivity.
Qed.

Lemma inv_pinit : inv pinit.
Proof. unfold inv. cbn. discriminate. Qed.

Lemma process_go_In : forall stream st, inv st -> forall s, In s (process_go st stream) ->
  has_nonws s = true /\
  ((exists l, s = rev (acc st) ++ l /\ quiet st l = true) \/
   (exists tk l, s = tk :: l /\ quiet (pstep pinit tk) l = true)).
Proof.
  induction stream as [|tk rest IH]; intros st Hi s Hin; cbn [process_go] in Hin.
  - destruct (acc st) as [|a l0] eqn:Ea; [contradiction|].
    destruct (forallb is_ws_tok (a :: l0)) eqn:F; [contradiction|].
    destruct Hin as [<-|[]]. split.
    + rewrite has_nonws_rev. rewrite has_nonws_forallb in F. destruct (has_nonws (a :: l0)); [reflexivity|discriminate].
    + left. exists []. rewrite app_nil_r. split; reflexivity.
  - destruct (consume_ws st && negb (in_eos eos (fst tk))) eqn:G.
    + destruct Hin as [<-|Hin].
      * apply andb_true_iff in G. destruct G as [G _]. split.
        -- rewrite has_nonws_rev. apply Hi. exact G.
        -- left. exists []. rewrite app_nil_r. split; reflexivity.
      * destruct (IH _ (inv_pstep _ tk inv_pinit) _ Hin) as [Hn [(l & El & Ql)|Hr]].
        -- split; [exact Hn|]. right. exists tk, l. split; [|exact Ql].
           rewrite El, pstep_acc. reflexivity.
        -- split; [exact Hn | right; exact Hr].
    + destruct (IH _ (inv_pstep _ tk Hi) _ Hin) as [Hn [(l & El & Ql)|Hr]].
      * split; [exact Hn|]. left. exists (tk :: l). split.
        -- rewrite El, pstep_acc. cbn [rev]. rewrite <- app_assoc. reflexivity.
        -- cbn [quiet]. rewrite G. exact Ql.
      * split; [exact Hn | right; exact Hr].
Qed.

Lemma process_go_quiet : forall l st,
  quiet st l = true -> has_nonws (rev (acc st) ++ l) = true ->
  process_go st l = [rev (acc st) ++ l].
Proof.
  induction l as [|tk l IH]; intros st Hq Hn.
  - rewrite app_nil_r in *. cbn [process_go].
    destruct (acc st) as [|a l0] eqn:Ea; [discriminate|].
    rewrite has_nonws_rev in Hn. rewrite has_nonws_forallb, Hn. reflexivity.
  - cbn [quiet] in Hq. apply andb_true_iff in Hq. destruct Hq as [Hc Hq].
    cbn [process_go]. apply negb_true_iff in Hc. rewrite Hc.
    rewrite (IH (pstep st tk) Hq); rewrite pstep_acc; cbn [rev]; rewrite <- app_assoc; [reflexivity|exact Hn].
Qed.

Lemma statement_quiet stream s : In s (process stream) ->
  has_nonws s = true /\ quiet pinit s = true.
Proof.
  intros Hin. destruct (process_go_In stream pinit inv_pinit s Hin) as [Hn [(l & El & Ql)|(tk & l & El & Ql)]].
  - split; [exact Hn|]. rewrite El. exact Ql.
  - split; [exact Hn|]. rewrite El. cbn [quiet]. rewrite Ql. reflexivity.
Qed.

Theorem process_resplit stream s : In s (process stream) -> process s = [s].
Proof.
  intros Hin. destruct (statement_quiet _ _ Hin) as [Hn Hq].
  unfold Splitter.process. rewrite (process_go_quiet s pinit Hq); [reflexivity | exact Hn].
Qed.

(* ---- whitespace-typed tokens are invisible to the splitter's decisions ---- *)
Hypothesis Hwschg : forall st ty v, is_ws_tok (ty, v) = true -> change st ty v = (st, 0%Z).

Definition sim (a b : pstate) : Prop :=
  ss a = ss b /\ consume_ws a = consume_ws b /\ level a = level b.

Lemma sim_pstep a b tk : sim a b -> sim (pstep a tk) (pstep b tk).
Proof.
  intros (E1 & E2 & E3). unfold Splitter.pstep. destruct tk as [ty v]. rewrite E1, E2, E3.
  destruct (change (ss b) ty v) as [s' d]. repeat split.
Qed.

Lemma quiet_sim l : forall a b, sim a b -> quiet a l = quiet b l.
Proof.
  induction l as [|tk l IH]; intros a b H; [reflexivity|].
  cbn [quiet]. rewrite (IH _ _ (sim_pstep _ _ tk H)). destruct H as (_ & -> & _). reflexivity.
Qed.

Lemma sim_ws_step st tk : is_ws_tok tk = true -> sim (pstep st tk) st.
Proof.
  intros Hw. unfold Splitter.pstep. destruct tk as [ty v]. rewrite (Hwschg _ _ _ Hw).
  repeat split; cbn.
  - destruct (terminator (level st + 0) ty v) eqn:T; [|apply orb_false_r].
    apply Hterm in T. rewrite T in Hw. discriminate.
  - apply Z.add_0_r.
Qed.

Lemma sim_trans a b c : sim a b -> sim b c -> sim a c.
Proof. intros (A1 & A2 & A3) (B1 & B2 & B3). repeat split; congruence. Qed.

Lemma sim_ws_run l : Forall (fun tk => is_ws_tok tk = true) l -> forall st, sim (run st l) st.
Proof.
  induction 1 as [|tk l Hw _ IH]; intros st; [repeat split|].
  cbn [run fold_left]. eapply sim_trans; [apply IH | apply sim_ws_step; exact Hw].
Qed.

Lemma quiet_app a : forall st b, quiet st (a ++ b) = quiet st a && quiet (run st a) b.
Proof.
  induction a as [|tk a IH]; intros st b; [reflexivity|].
  cbn [app quiet run fold_left]. rewrite IH. apply andb_assoc.
Qed.

(* a statement stripped of whitespace-typed tokens at both ends is still exactly one statement *)
Theorem process_trimmed stream s l m r :
  In s (process stream) -> s = l ++ m ++ r ->
  Forall (fun tk => is_ws_tok tk = true) l -> Forall (fun tk => is_ws_tok tk = true) r ->
  process m = [m].
Proof.
  intros Hin -> Hl Hr. destruct (statement_quiet _ _ Hin) as [Hn Hq].
  rewrite !has_nonws_app, (has_nonws_all_ws _ Hl), (has_nonws_all_ws _ Hr), orb_false_r in Hn.
  cbn [orb] in Hn.
  rewrite quiet_app in Hq. apply andb_true_iff in Hq. destruct Hq as [_ Hq].
  rewrite quiet_app in Hq. apply andb_true_iff in Hq. destruct Hq as [Hq _].
  rewrite (quiet_sim m _ _ (sim_ws_run l Hl pinit)) in Hq.
  unfold Splitter.process. rewrite (process_go_quiet m pinit Hq); [reflexivity | exact Hn].
Qed.

(* ---- the value of a token that is neither a keyword nor punctuation is invisible as well ---- *)
Definition neutral_ty (ty : ttype) : bool := negb (tin ty T_Keyword) && negb (ttype_eqb ty T_Punctuation).
Definition tok_sim (a b : tok) : Prop :=
  fst a = fst b /\ (snd a = snd b \/ neutral_ty (fst a) = true).

Hypothesis Hval : forall ty v v', neutral_ty ty = true ->
  (forall st, change st ty v = change st ty v') /\ (forall lv, terminator lv ty v = terminator lv ty v').

Lemma sim_pstep_toksim a b tk tk' : sim a b -> tok_sim tk tk' -> sim (pstep a tk) (pstep b tk').
Proof.
  intros H [Et Ev]. destruct tk as [ty v], tk' as [ty' v']. cbn [fst snd] in Et, Ev. subst ty'.
  destruct Ev as [->|Hn]; [apply sim_pstep; exact H|].
  destruct (Hval ty v v' Hn) as [Hc Ht].
  destruct H as (E1 & E2 & E3). unfold Splitter.pstep. rewrite E1, E2, E3, (Hc (ss b)).
  destruct (change (ss b) ty v') as [s' d]. rewrite Ht. repeat split.
Qed.

Lemma quiet_toksim m m' : Forall2 tok_sim m m' -> forall a b, sim a b -> quiet a m = quiet b m'.
Proof.
  induction 1 as [|tk tk' m m' Ht _ IH]; intros a b H; [reflexivity|].
  cbn [quiet]. rewrite (IH _ _ (sim_pstep_toksim _ _ _ _ H Ht)).
  destruct Ht as [-> _]. destruct H as (_ & -> & _). reflexivity.
Qed.

Lemma has_nonws_toksim m m' : Forall2 tok_sim m m' -> has_nonws m = has_nonws m'.
Proof.
  induction 1 as [|tk tk' m m' [Ht _] _ IH]; [reflexivity|].
  cbn [has_nonws existsb]. unfold is_ws_tok at 1 3. rewrite Ht. f_equal. exact IH.
Qed.

Theorem process_trimmed_sim stream s l m r m' :
  In s (process stream) -> s = l ++ m ++ r ->
  Forall (fun tk => is_ws_tok tk = true) l -> Forall (fun tk => is_ws_tok tk = true) r ->
  Forall2 tok_sim m m' ->
  process m' = [m'].
Proof.
  intros Hin -> Hl Hr Hs. destruct (statement_quiet _ _ Hin) as [Hn Hq].
  rewrite !has_nonws_app, (has_nonws_all_ws _ Hl), (has_nonws_all_ws _ Hr), orb_false_r in Hn.
  cbn [orb] in Hn.
  rewrite quiet_app in Hq. apply andb_true_iff in Hq. destruct Hq as [_ Hq].
  rewrite quiet_app in Hq. apply andb_true_iff in Hq. destruct Hq as [Hq _].
  rewrite (quiet_sim m _ _ (sim_ws_run l Hl pinit)) in Hq.
  assert (Hrefl : sim pinit pinit) by (repeat split).
  rewrite (quiet_toksim _ _ Hs _ _ Hrefl) in Hq. rewrite (has_nonws_toksim _ _ Hs) in Hn.
  unfold Splitter.process. rewrite (process_go_quiet m' pinit Hq); [reflexivity | exact Hn].
Qed.

End SplitterMore.

(* ================================================================================================
   F. the current tables
   ============================================================================================== *)
Lemma cur_rule_nonspace_ok : forallb (rule_nonspace_ok space_set) sql_regex = true.
Proof. vm_compute. reflexivity. Qed.
Lemma cur_rule_ws_ok : forallb (rule_ws_ok space_set) sql_regex = true.
Proof. vm_compute. reflexivity. Qed.
Lemma cur_kws_no_ws : kws_no_ws kws = true.
Proof. vm_compute. reflexivity. Qed.
Lemma cur_space_rule : existsb (is_space_rule space_set) sql_regex = true.
Proof. vm_compute. reflexivity. Qed.
(* str.isspace() characters are \s characters (what the space-rule obligation rests on) and conversely *)
Lemma cur_space_subset_regex_space : csubset space_set regex_space_set = true.
Proof. vm_compute. reflexivity. Qed.
Lemma cur_regex_space_subset_space : csubset regex_space_set space_set = true.
Proof. vm_compute. reflexivity. Qed.
(* the rules that may match without a non-space character (at present: indices 4 and 5, Newline and
   Whitespace) all emit a whitespace type -- stated so that it survives a renumbering of the rules *)
Lemma cur_failing_rules :
  forallb (fun i => match nth_error sql_regex i with
                    | Some (_, Emit ty) => tin ty T_Whitespace
                    | _ => false
                    end) (failing_rules space_set 0 sql_regex) = true.
Proof. vm_compute. reflexivity. Qed.

Lemma ws_ttype ty : tin ty T_Whitespace = true -> exists ty', ty = Text :: Whitespace :: ty'.
Proof.
  destruct ty as [|a [|b ty']]; cbn [tin T_Whitespace]; try discriminate.
  - destruct a; discriminate.
  - destruct a; try discriminate. destruct b; try discriminate. intros _. exists ty'. reflexivity.
Qed.

Lemma cur_terminator_not_ws lv ty v : is_terminator lv ty v = true -> is_ws_tok (ty, v) = false.
Proof.
  unfold is_ws_tok. cbn [fst]. intros H.
  destruct (tin ty T_Whitespace) eqn:E; [|reflexivity].
  apply ws_ttype in E. destruct E as (ty' & ->).
  unfold is_terminator in H. cbn [ttype_eqb tcomp_eqb andb] in H.
  rewrite andb_false_r in H. discriminate.
Qed.

Lemma cur_change_ws st ty v : is_ws_tok (ty, v) = true -> change_splitlevel st ty v = (st, 0%Z).
Proof.
  unfold is_ws_tok. cbn [fst]. intros E. apply ws_ttype in E. destruct E as (ty' & ->).
  unfold change_splitlevel. cbn [ttype_eqb tcomp_eqb andb tin negb]. reflexivity.
Qed.

Lemma cur_lex_spec t : exists toks,
  cur_lex t = Ok toks /\ concat (map snd toks) = t /\ Forall (tok_good space_set) toks.
Proof.
  destruct (lex_total_lossless lower upper sql_regex kws cur_rules_wide t) as (toks & E & C & _ & S).
  exists toks. split; [exact E|]. split; [exact C|].
  eapply LexSpec_tok_good; [exact cur_rule_nonspace_ok | exact cur_rule_ws_ok | exact cur_kws_no_ws
                            | exact cur_space_rule | exact S].
Qed.

Lemma stmt_text_app a b : stmt_text (a ++ b) = stmt_text a ++ stmt_text b.
Proof. apply flat_map_app. Qed.

Lemma stmt_text_concat ss : stmt_text (concat ss) = concat (map stmt_text ss).
Proof.
  induction ss as [|s ss IH]; [reflexivity|]. cbn [concat map]. rewrite stmt_text_app, IH. reflexivity.
Qed.

Lemma ws_toks_all_space l :
  Forall (tok_good space_set) l -> Forall (fun tk => is_ws_tok tk = true) l ->
  all_space space_set (stmt_text l) = true.
Proof.
  induction 1 as [|tk l [Hg _] _ IH]; intros Hw; [reflexivity|].
  inversion Hw as [|? ? Hw1 Hw2]; subst.
  unfold stmt_text. cbn [flat_map]. rewrite all_space_app, (Hg Hw1). change (flat_map snd l) with (stmt_text l).
  apply IH. exact Hw2.
Qed.

Lemma nonws_toks_nonspace l :
  Forall (tok_good space_set) l -> has_nonws l = true -> has_nonspace space_set (stmt_text l) = true.
Proof.
  induction 1 as [|tk l [_ Hg] _ IH]; intros Hn; [discriminate|].
  unfold stmt_text. cbn [flat_map]. rewrite has_nonspace_app. change (flat_map snd l) with (stmt_text l).
  cbn [has_nonws existsb] in Hn. destruct (is_ws_tok tk) eqn:E.
  - cbn [negb orb] in Hn. rewrite (IH Hn). apply orb_true_r.
  - rewrite (Hg eq_refl). reflexivity.
Qed.

Lemma Forall_concat_in {A} (P : A -> Prop) (ss : list (list A)) (tl : list A) s :
  Forall P (concat ss ++ tl) -> In s ss -> Forall P s.
Proof.
  intros H Hin. rewrite Forall_forall in *. intros x Hx. apply H. apply in_or_app. left.
  apply in_concat. exists s. split; assumption.
Qed.

(* ---- interleaving ---- *)
Lemma interleave_cons_gap r g gaps ps :
  interleave ((r ++ g) :: gaps) ps = r ++ interleave (g :: gaps) ps.
Proof. destruct ps as [|p ps]; cbn [interleave]; [reflexivity | rewrite <- app_assoc; reflexivity]. Qed.

Lemma interleave_build sp (Ts : list text) : forall tail, all_space sp tail = true ->
  exists gaps, length gaps = S (length Ts)
    /\ Forall (fun g => all_space sp g = true) gaps
    /\ concat Ts ++ tail = interleave gaps (map (strip sp) Ts).
Proof.
  induction Ts as [|T Ts IH]; intros tail Ht.
  - exists [tail]. split; [reflexivity|]. split; [constructor; [exact Ht | constructor] | reflexivity].
  - destruct (IH tail Ht) as (gaps & Lg & Fg & Eg).
    destruct gaps as [|g0 gaps]; [discriminate|].
    destruct (strip_split sp T) as (l & r & ET & Al & Ar).
    exists (l :: (r ++ g0) :: gaps). split; [cbn [length] in *; lia|]. split.
    + inversion Fg as [|? ? Fg0 Fgs]; subst. constructor; [exact Al|]. constructor; [|exact Fgs].
      rewrite all_space_app, Ar, Fg0. reflexivity.
    + cbn [concat map].
      change (interleave (l :: (r ++ g0) :: gaps) (strip sp T :: map (strip sp) Ts))
        with (l ++ strip sp T ++ interleave ((r ++ g0) :: gaps) (map (strip sp) Ts)).
      rewrite interleave_cons_gap, <- Eg.
      rewrite ET at 1. rewrite <- !app_assoc. reflexivity.
Qed.

(* ---- main theorems ---- *)
Theorem split_agree : forall t stmts, cur_parse t = Ok stmts ->
  cur_split false t = Ok (map (fun s => strip space_set (text_of s)) stmts).
Proof.
  intros t stmts H. apply cur_parse_inv in H. destruct H as (toks & El & Hg).
  unfold cur_split, cur_split_stream. rewrite El. cbn [bind]. f_equal.
  induction Hg as [|s n ss ns Hsn _ IH]; [reflexivity|].
  cbn [map]. f_equal; [|exact IH].
  unfold piece_of. f_equal.
  apply group_good in Hsn. destruct Hsn as [Hs _]. apply nsim_text in Hs.
  rewrite <- Hs, text_of_leaves, statement_leaves. reflexivity.
Qed.

Theorem split_partition : forall t ps, cur_split false t = Ok ps ->
  Forall (fun p => p <> []) ps /\
  exists gaps, length gaps = S (length ps)
    /\ Forall (fun g => all_space space_set g = true) gaps
    /\ t = interleave gaps ps.
Proof.
  intros t ps H. destruct (cur_lex_spec t) as (toks & El & Ec & Hgood).
  unfold cur_split, cur_split_stream in H. rewrite El in H. cbn [bind] in H. injection H as <-.
  pose proof (process_partition reset_sstate change_splitlevel eos_ttypes is_terminator toks) as Hp.
  pose proof (dropped_ws reset_sstate change_splitlevel eos_ttypes is_terminator toks) as Hd.
  fold (cur_process toks) in Hp.
  set (ss := cur_process toks) in *.
  set (dr := dropped reset_sstate change_splitlevel eos_ttypes is_terminator toks) in *.
  rewrite <- Hp in Hgood.
  assert (Hns : Forall (fun s => has_nonspace space_set (stmt_text s) = true) ss).
  { apply Forall_forall. intros s Hin. apply nonws_toks_nonspace.
    - eapply Forall_concat_in; eassumption.
    - unfold ss, cur_process in Hin.
      apply (statement_quiet _ _ _ _ cur_terminator_not_ws) in Hin. apply Hin. }
  split.
  - apply Forall_forall. intros p Hin. apply in_map_iff in Hin. destruct Hin as (s & <- & Hin).
    rewrite Forall_forall in Hns. unfold piece_of. apply strip_nonempty. apply Hns. exact Hin.
  - assert (Htail : all_space space_set (stmt_text dr) = true).
    { apply ws_toks_all_space; [|exact Hd].
      apply Forall_forall. intros x Hx. rewrite Forall_forall in Hgood. apply Hgood.
      apply in_or_app. right. exact Hx. }
    destruct (interleave_build space_set (map stmt_text ss) _ Htail) as (gaps & Lg & Fg & Eg).
    exists gaps. rewrite !map_length in *. split; [exact Lg|]. split; [exact Fg|].
    rewrite map_map in Eg. unfold piece_of. cbn beta iota. rewrite <- Eg.
    rewrite <- stmt_text_concat, <- stmt_text_app, Hp. unfold stmt_text.
    rewrite <- concat_map_flat_map. symmetry. exact Ec.
Qed.

Lemma last_gap_empty sp : forall qs gaps (pre : text), pre <> [] ->
  length gaps = length qs ->
  forall g, Forall (fun g => all_space sp g = true) (g :: gaps) ->
  Forall (fun p : text => p <> []) qs ->
  forall p, rstrip sp p = p -> p = pre ++ interleave (g :: gaps) qs ->
  last (g :: gaps) [] = [].
Proof.
  induction qs as [|q qs IHq]; intros gaps pre Hpre Lg g Fg Hqne p Hr Ep.
  - destruct gaps; [|discriminate]. cbn [interleave last] in *.
    pose proof (Forall_inv Fg) as Fg0.
    apply (tight_right sp p g pre Hr Ep Fg0 Hpre).
  - destruct gaps as [|g1 gaps]; [discriminate|].
    cbn [interleave] in Ep.
    pose proof (Forall_inv_tail Fg) as Fg'. pose proof (Forall_inv_tail Hqne) as Hqne'.
    change (last (g :: g1 :: gaps) []) with (last (g1 :: gaps) []).
    apply (IHq gaps (pre ++ g ++ q)) with (p := p).
    + intro E. apply app_eq_nil in E. destruct E as [E _]. contradiction.
    + cbn [length] in Lg. lia.
    + exact Fg'.
    + exact Hqne'.
    + exact Hr.
    + rewrite <- !app_assoc. exact Ep.
Qed.

(* unconditionally, re-splitting a piece can only cut it further: the result is a non-empty list of
   pieces that partition the piece with whitespace-only inner gaps (nothing is lost, altered or
   reordered), and it is [piece] as soon as it has length one *)
Theorem split_resplit_shape : forall t ps p, cur_split false t = Ok ps -> In p ps ->
  exists qs, cur_split false p = Ok qs /\ qs <> [] /\ (length qs = 1 -> qs = [p]) /\
    exists gaps, length gaps = S (length qs)
      /\ Forall (fun g => all_space space_set g = true) gaps
      /\ hd [] gaps = [] /\ last gaps [] = []
      /\ p = interleave gaps qs.
Proof.
  intros t ps p H Hin.
  destruct (split_partition t ps H) as [Hne _].
  rewrite Forall_forall in Hne. specialize (Hne p Hin).
  (* p is a stripped text *)
  assert (Htight : lstrip space_set p = p /\ rstrip space_set p = p).
  { destruct (cur_lex_spec t) as (toks & El & _).
    unfold cur_split, cur_split_stream in H. rewrite El in H. cbn [bind] in H. injection H as <-.
    apply in_map_iff in Hin. destruct Hin as (s & <- & _). unfold piece_of.
    split; [apply strip_lstrip_fix | apply strip_rstrip_fix]. }
  destruct Htight as [Hl Hr].
  destruct (cur_lex_spec p) as (toks & El & _).
  assert (Hq : exists qs, cur_split false p = Ok qs).
  { unfold cur_split, cur_split_stream. rewrite El. cbn [bind]. eexists. reflexivity. }
  destruct Hq as (qs & Hq). exists qs. split; [exact Hq|].
  destruct (split_partition p qs Hq) as [Hqne (gaps & Lg & Fg & Ep)].
  assert (Hpns : has_nonspace space_set p = true).
  { destruct p as [|c u]; [contradiction|]. cbn [has_nonspace existsb].
    rewrite (lstrip_head space_set (c :: u) c u Hl). reflexivity. }
  assert (Hqs : qs <> []).
  { intros ->. destruct gaps as [|g0 [|g1 gaps]]; try discriminate.
    cbn [interleave] in Ep. pose proof (Forall_inv Fg) as Fg0.
    rewrite Ep, has_nonspace_negb, Fg0 in Hpns. discriminate. }
  split; [exact Hqs|].
  (* the outer gaps are empty *)
  destruct qs as [|q qs]; [contradiction|].
  destruct gaps as [|g0 gaps]; [discriminate|].
  assert (Hg0 : g0 = []).
  { pose proof (Forall_inv Fg) as Fg0.
    destruct gaps as [|g1 gaps]; [discriminate|]. cbn [interleave] in Ep.
    apply (tight_left space_set _ g0 _ Hl Ep Fg0).
    pose proof (Forall_inv Hqne) as Hq0. destruct q; [contradiction | discriminate]. }
  assert (Hlast : last (g0 :: gaps) [] = []).
  { destruct gaps as [|g1 gaps]; [discriminate|]. cbn [interleave] in Ep.
    pose proof (Forall_inv_tail Fg) as Fg'. pose proof (Forall_inv Hqne) as Hq0.
    pose proof (Forall_inv_tail Hqne) as Hqne'.
    change (last (g0 :: g1 :: gaps) []) with (last (g1 :: gaps) []).
    apply (last_gap_empty space_set qs gaps (g0 ++ q)) with (p := p).
    - intro E. apply app_eq_nil in E. destruct E as [_ E]. contradiction.
    - cbn [length] in Lg. lia.
    - exact Fg'.
    - exact Hqne'.
    - exact Hr.
    - rewrite <- app_assoc. exact Ep. }
  split.
  - intros L1. destruct qs as [|q' qs]; [|discriminate].
    destruct gaps as [|g1 [|g2 gaps]]; try discriminate.
    cbn [last] in Hlast. subst g0 g1. cbn [interleave app] in Ep. rewrite app_nil_r in Ep.
    rewrite Ep. reflexivity.
  - exists (g0 :: gaps). split; [exact Lg|]. split; [exact Fg|]. split; [exact Hg0|]. split; [exact Hlast | exact Ep].
Qed.

(* token level: a statement the splitter yields is, fed to the splitter again, exactly one statement *)
Theorem split_resplit_tokens : forall toks s, In s (cur_process toks) -> cur_process s = [s].
Proof.
  intros toks s H. unfold cur_process in *.
  eapply process_resplit; [exact cur_terminator_not_ws | exact H].
Qed.

(* text level, conditional on lexing stability: if the piece lexes to the statement's own tokens
   minus whitespace-typed tokens at both ends, splitting the piece returns the piece *)
Theorem split_idem_partial : forall t toks s l m r,
  cur_lex t = Ok toks -> In s (cur_process toks) ->
  s = l ++ m ++ r ->
  Forall (fun tk => is_ws_tok tk = true) l -> Forall (fun tk => is_ws_tok tk = true) r ->
  cur_lex (piece_of false s) = Ok m ->
  cur_split false (piece_of false s) = Ok [piece_of false s].
Proof.
  intros t toks s l m r El Hin Es Hl Hr Em.
  unfold cur_split, cur_split_stream. rewrite Em. cbn [bind]. f_equal.
  unfold cur_process in *.
  rewrite (process_trimmed _ _ _ _ cur_terminator_not_ws cur_change_ws toks s l m r Hin Es Hl Hr).
  cbn [map]. f_equal.
  destruct (cur_lex_spec (piece_of false s)) as (m' & Em' & Ec & _).
  rewrite Em in Em'. injection Em' as <-.
  unfold piece_of at 1. unfold stmt_text. rewrite <- concat_map_flat_map, Ec.
  unfold piece_of. apply strip_idem.
Qed.

Lemma cur_neutral_value ty v v' : neutral_ty ty = true ->
  (forall st, change_splitlevel st ty v = change_splitlevel st ty v') /\
  (forall lv, is_terminator lv ty v = is_terminator lv ty v').
Proof.
  unfold neutral_ty. intros H. apply andb_true_iff in H. destruct H as [Hk Hp].
  apply negb_true_iff in Hk. apply negb_true_iff in Hp.
  unfold T_Keyword in Hk. unfold T_Punctuation in Hp.
  assert (Hk' : ttype_eqb ty [Keyword] = false).
  { destruct (ttype_eqb ty [Keyword]) eqn:E; [|reflexivity].
    apply ttype_eqb_eq in E. subst ty. discriminate. }
  split.
  - intros st. unfold change_splitlevel. rewrite Hp, Hk. reflexivity.
  - intros lv. unfold is_terminator. rewrite Hp, Hk'. reflexivity.
Qed.

(* the same with a weaker stability requirement: the piece lexes to tokens of the same types, and the
   values may differ on tokens that are neither keywords nor punctuation (a final "-- c" comment
   lexes without the line end that strip() removed) *)
Theorem split_idem_partial_sim : forall t toks s l m r m',
  cur_lex t = Ok toks -> In s (cur_process toks) ->
  s = l ++ m ++ r ->
  Forall (fun tk => is_ws_tok tk = true) l -> Forall (fun tk => is_ws_tok tk = true) r ->
  cur_lex (piece_of false s) = Ok m' -> Forall2 tok_sim m m' ->
  cur_split false (piece_of false s) = Ok [piece_of false s].
Proof.
  intros t toks s l m r m' El Hin Es Hl Hr Em Hs.
  unfold cur_split, cur_split_stream. rewrite Em. cbn [bind]. f_equal.
  unfold cur_process in *.
  rewrite (process_trimmed_sim _ _ _ _ cur_terminator_not_ws cur_change_ws cur_neutral_value
             toks s l m r m' Hin Es Hl Hr Hs).
  cbn [map]. f_equal.
  destruct (cur_lex_spec (piece_of false s)) as (m'' & Em' & Ec & _).
  rewrite Em in Em'. injection Em' as <-.
  unfold piece_of at 1. unfold stmt_text. rewrite <- concat_map_flat_map, Ec.
  unfold piece_of. apply strip_idem.
Qed.

(* text level is false in general *)
Theorem split_idem_refuted :
  exists t p, cur_split false t = Ok [p] /\ cur_split false p <> Ok [p].
Proof.
  exists [59; 35; 32]%N, [59; 35]%N.   (* ";# "  ->  ";#"  ->  ";" , "#" *)
  split; [vm_compute; reflexivity | vm_compute; discriminate].
Qed.

(* a second kind of counterexample: the piece follows a GO keyword without whitespace; re-lexed on its
   own, its first token is no longer preceded by a word character, `[(]` becomes a Name, the parenthesis
   disappears and the semicolon terminates:  "GO[(];x" -> "GO", "[(];x";  "[(];x" -> "[(];", "x" *)
Theorem split_idem_refuted_leftctx :
  exists t p q, cur_split false t = Ok [p; q] /\ cur_split false p = Ok [p] /\ cur_split false q <> Ok [q].
Proof.
  exists [71; 79; 91; 40; 93; 59; 120]%N, [71; 79]%N, [91; 40; 93; 59; 120]%N.
  split; [vm_compute; reflexivity|]. split; [vm_compute; reflexivity | vm_compute; discriminate].
Qed.

(* ---- the hypotheses of the theorems are satisfiable ---- *)
Definition ex_t : text :=       (* "select 1; \n select 2" *)
  [115; 101; 108; 101; 99; 116; 32; 49; 59; 32; 10; 32; 115; 101; 108; 101; 99; 116; 32; 50]%N.
Definition ex_toks : list tok := match cur_lex ex_t with Ok x => x | Err _ => [] end.
Definition ex_s : list tok := hd [] (cur_process ex_toks).
Definition ex_m : list tok := match cur_lex (piece_of false ex_s) with Ok x => x | Err _ => [] end.
Definition ex_r : list tok := skipn (length ex_m) ex_s.

Example split_examples :
  cur_split false ex_t = Ok [[115; 101; 108; 101; 99; 116; 32; 49; 59]%N; [115; 101; 108; 101; 99; 116; 32; 50]%N]
  /\ (exists stmts, cur_parse ex_t = Ok stmts /\ length stmts = 2)
  /\ cur_lex ex_t = Ok ex_toks /\ In ex_s (cur_process ex_toks)
  /\ ex_s = [] ++ ex_m ++ ex_r /\ ex_r <> []
  /\ Forall (fun tk => is_ws_tok tk = true) ex_r
  /\ cur_lex (piece_of false ex_s) = Ok ex_m.
Proof.
  split; [vm_compute; reflexivity|].
  split; [eexists; split; [vm_compute; reflexivity | reflexivity]|].
  split; [vm_compute; reflexivity|].
  split; [vm_compute; left; reflexivity|].
  split; [vm_compute; reflexivity|].
  split; [vm_compute; discriminate|].
  split; [vm_compute; repeat constructor | vm_compute; reflexivity].
Qed.

(* the weaker stability requirement is met where the exact one is not: "select 1; -- c\nselect 2" *)
Definition ex2_t : text :=
  [115; 101; 108; 101; 99; 116; 32; 49; 59; 32; 45; 45; 32; 99; 10; 115; 101; 108; 101; 99; 116; 32; 50]%N.
Definition ex2_toks : list tok := match cur_lex ex2_t with Ok x => x | Err _ => [] end.
Definition ex2_s : list tok := hd [] (cur_process ex2_toks).
Definition ex2_m' : list tok := match cur_lex (piece_of false ex2_s) with Ok x => x | Err _ => [] end.

Example split_example_sim :
  cur_lex ex2_t = Ok ex2_toks /\ In ex2_s (cur_process ex2_toks)
  /\ ex2_s = [] ++ ex2_s ++ []
  /\ cur_lex (piece_of false ex2_s) = Ok ex2_m'
  /\ ex2_m' <> ex2_s
  /\ Forall2 tok_sim ex2_s ex2_m'.
Proof.
  split; [vm_compute; reflexivity|].
  split; [vm_compute; left; reflexivity|].
  split; [rewrite app_nil_r; reflexivity|].
  split; [vm_compute; reflexivity|].
  split; [vm_compute; discriminate|].
  vm_compute. repeat (constructor; [split; [reflexivity | first [left; reflexivity | right; reflexivity]]|]).
  constructor.
Qed.
