(* C11 at the splitter level: the statement boundaries (over significant tokens) are invariant
   under the guarded skeleton relation.  Proofs for Skeleton.v. *)
From SqlModel Require Import Base PyStr SplitDefs Splitter SplitFacts Level Skeleton.
From SqlModel.Gen Require Import CaseTabs SplitTab.
From Coq Require Import ZArith Lia.
Local Open Scope Z_scope.

(* ================================================================================================
   1. collapse
   ================================================================================================ *)
Lemma blank_is_space : cmem 32%N space_set = true.
Proof. reflexivity. Qed.

Lemma collapse_nospace : forall t b, has_space t = false -> collapse_go space_set b t = t.
Proof.
  induction t as [|c t IH]; intros b H; [reflexivity|].
  cbn [has_space existsb] in H. apply orb_false_iff in H. destruct H as [Hc Ht].
  cbn [collapse_go]. rewrite Hc. f_equal. apply IH. exact Ht.
Qed.

Lemma collapse_space : forall t, has_space t = true -> has_space (collapse_go space_set false t) = true.
Proof.
  induction t as [|c t IH]; intros H; [discriminate|].
  cbn [collapse_go]. destruct (cmem c space_set) eqn:Hc.
  - cbn [has_space existsb]. rewrite blank_is_space. reflexivity.
  - cbn [has_space existsb] in *. rewrite Hc in *. cbn [orb] in *. apply IH. exact H.
Qed.

(* comparing with a word that contains no space character does not see the collapsing *)
Lemma eqb_collapse u u' w :
  collapse u = collapse u' -> has_space w = false -> text_eqb u w = text_eqb u' w.
Proof.
  intros Hc Hw. unfold collapse in Hc.
  destruct (has_space u) eqn:Hu; destruct (has_space u') eqn:Hu'.
  - assert (A : text_eqb u w = false).
    { destruct (text_eqb u w) eqn:E; [|reflexivity]. apply text_eqb_eq in E. congruence. }
    assert (B : text_eqb u' w = false).
    { destruct (text_eqb u' w) eqn:E; [|reflexivity]. apply text_eqb_eq in E. congruence. }
    congruence.
  - apply collapse_space in Hu. rewrite Hc, (collapse_nospace _ _ Hu') in Hu. congruence.
  - apply collapse_space in Hu'. rewrite <- Hc, (collapse_nospace _ _ Hu) in Hu'. congruence.
  - rewrite (collapse_nospace _ _ Hu), (collapse_nospace _ _ Hu') in Hc. congruence.
Qed.

Lemma prefix_collapse_go : forall w u, has_space w = false ->
  text_prefixb w (collapse_go space_set false u) = text_prefixb w u.
Proof.
  induction w as [|a w IH]; intros u Hw; [reflexivity|].
  cbn [has_space existsb] in Hw. apply orb_false_iff in Hw. destruct Hw as [Ha Hw].
  destruct u as [|c u]; [reflexivity|].
  cbn [collapse_go]. destruct (cmem c space_set) eqn:Hc.
  - cbn [text_prefixb].
    assert (A : N.eqb a 32 = false).
    { destruct (N.eqb a 32) eqn:E; [|reflexivity]. apply N.eqb_eq in E. subst a.
      rewrite blank_is_space in Ha. discriminate. }
    assert (B : N.eqb a c = false).
    { destruct (N.eqb a c) eqn:E; [|reflexivity]. apply N.eqb_eq in E. subst a. congruence. }
    rewrite A, B. reflexivity.
  - cbn [text_prefixb]. rewrite (IH u Hw). reflexivity.
Qed.

Lemma prefix_collapse u u' w :
  collapse u = collapse u' -> has_space w = false -> text_prefixb w u = text_prefixb w u'.
Proof.
  intros Hc Hw. rewrite <- (prefix_collapse_go w u Hw), <- (prefix_collapse_go w u' Hw).
  unfold collapse in Hc. rewrite Hc. reflexivity.
Qed.

(* ---- ' '.join(v.split()) and v.split()[0] see a text only through its collapse --------------------- *)
Lemma js_collapse_go : forall t st b,
  (b = true -> st <> JsWord) ->
  js_go space_set st (collapse_go space_set b t) = js_go space_set st t.
Proof.
  induction t as [|c t IH]; intros st b Hb; [reflexivity|].
  cbn [collapse_go js_go]. destruct (cmem c space_set) eqn:Hc.
  - destruct b.
    + assert (E : match st with JsStart => JsStart | _ => JsGap end = st)
        by (destruct st; try reflexivity; exfalso; apply (Hb eq_refl); reflexivity).
      rewrite E. apply IH. exact Hb.
    + cbn [js_go]. rewrite blank_is_space. apply IH. intros _. destruct st; discriminate.
  - cbn [js_go]. rewrite Hc.
    destruct st; rewrite (IH JsWord false) by discriminate; reflexivity.
Qed.

Lemma join_split_collapse u u' :
  collapse u = collapse u' -> join_split space_set u = join_split space_set u'.
Proof.
  unfold collapse, join_split. intros H.
  rewrite <- (js_collapse_go u JsStart false), <- (js_collapse_go u' JsStart false) by discriminate.
  rewrite H. reflexivity.
Qed.

Lemma take_word_collapse : forall t,
  take_word space_set (collapse_go space_set false t) = take_word space_set t.
Proof.
  induction t as [|c t IH]; [reflexivity|]. cbn [collapse_go take_word].
  destruct (cmem c space_set) eqn:Hc.
  - cbn [take_word]. rewrite blank_is_space. reflexivity.
  - cbn [take_word]. rewrite Hc, IH. reflexivity.
Qed.

Lemma first_word_collapse_go : forall t b,
  first_word space_set (collapse_go space_set b t) = first_word space_set t.
Proof.
  unfold first_word. induction t as [|c t IH]; intros b; [reflexivity|].
  cbn [collapse_go lstrip]. destruct (cmem c space_set) eqn:Hc.
  - destruct b; [apply IH|]. cbn [lstrip]. rewrite blank_is_space. apply IH.
  - cbn [lstrip]. rewrite Hc. cbn [take_word]. rewrite Hc, take_word_collapse. reflexivity.
Qed.

Lemma first_word_collapse u u' :
  collapse u = collapse u' -> first_word space_set u = first_word space_set u'.
Proof.
  unfold collapse. intros H.
  rewrite <- (first_word_collapse_go u false), <- (first_word_collapse_go u' false), H. reflexivity.
Qed.

(* str.upper() neither creates nor removes white space: a table fact about the regenerated upper_tab *)
Definition upper_img (c : N) : text := match ufind c upper_tab with Some v => v | None => [c] end.
Definition upper_entry_ok (k : N) (v : list N) : bool :=
  negb (cmem k space_set) && negb (nilb v) && forallb (fun d => negb (cmem d space_set)) v.
Lemma upper_tab_space_ok : uforall upper_entry_ok upper_tab = true.
Proof. vm_compute. reflexivity. Qed.

Lemma uforall_find P : forall m c v, uforall P m = true -> ufind c m = Some v -> exists k, P k v = true /\ k = c.
Proof.
  induction m as [|l IHl k w r IHr]; intros c v H F; [discriminate|].
  cbn [uforall] in H. apply andb_true_iff in H. destruct H as [H Hr].
  apply andb_true_iff in H. destruct H as [Hk Hl].
  cbn [ufind] in F. destruct (N.compare c k) eqn:E.
  - apply N.compare_eq in E. inversion F. subst. exists k. auto.
  - apply (IHl c v Hl F).
  - apply (IHr c v Hr F).
Qed.

Lemma upper_img_space c : cmem c space_set = true -> upper_img c = [c].
Proof.
  intros Hc. unfold upper_img. destruct (ufind c upper_tab) as [v|] eqn:F; [|reflexivity].
  destruct (uforall_find _ _ _ _ upper_tab_space_ok F) as (k & Hk & ->).
  unfold upper_entry_ok in Hk. rewrite Hc in Hk. discriminate.
Qed.

Lemma upper_img_nonspace c : cmem c space_set = false ->
  upper_img c <> [] /\ forallb (fun d => negb (cmem d space_set)) (upper_img c) = true.
Proof.
  intros Hc. unfold upper_img. destruct (ufind c upper_tab) as [v|] eqn:F.
  - destruct (uforall_find _ _ _ _ upper_tab_space_ok F) as (k & Hk & ->).
    unfold upper_entry_ok in Hk. apply andb_true_iff in Hk. destruct Hk as [Hk Hv].
    apply andb_true_iff in Hk. destruct Hk as [_ Hn]. split; [|exact Hv].
    destruct v; [discriminate|discriminate].
  - split; [discriminate|]. cbn [forallb]. rewrite Hc. reflexivity.
Qed.

Lemma upper_cons c t : upper (c :: t) = upper_img c ++ upper t.
Proof. reflexivity. Qed.

Lemma take_word_nonspace_app : forall w r,
  forallb (fun d => negb (cmem d space_set)) w = true ->
  take_word space_set (w ++ r) = w ++ take_word space_set r.
Proof.
  induction w as [|d w IH]; intros r H; [reflexivity|]. cbn [forallb] in H.
  apply andb_true_iff in H. destruct H as [Hd Hw]. apply negb_true_iff in Hd.
  cbn [app take_word]. rewrite Hd, (IH r Hw). reflexivity.
Qed.

Lemma upper_take_word : forall t, upper (take_word space_set t) = take_word space_set (upper t).
Proof.
  induction t as [|c t IH]; [reflexivity|]. cbn [take_word]. rewrite upper_cons.
  destruct (cmem c space_set) eqn:Hc.
  - rewrite (upper_img_space c Hc). cbn [app take_word]. rewrite Hc. reflexivity.
  - destruct (upper_img_nonspace c Hc) as [_ Hn].
    rewrite upper_cons, (take_word_nonspace_app _ _ Hn), IH. reflexivity.
Qed.

Lemma upper_first_word : forall t, upper (first_word space_set t) = first_word space_set (upper t).
Proof.
  unfold first_word. induction t as [|c t IH]; [reflexivity|]. cbn [lstrip]. rewrite upper_cons.
  destruct (cmem c space_set) eqn:Hc.
  - rewrite (upper_img_space c Hc). cbn [app lstrip]. rewrite Hc. exact IH.
  - rewrite upper_take_word, upper_cons.
    destruct (upper_img_nonspace c Hc) as [Hne Hn].
    destruct (upper_img c) as [|d w] eqn:E; [congruence|].
    cbn [forallb] in Hn. apply andb_true_iff in Hn. destruct Hn as [Hd _]. apply negb_true_iff in Hd.
    cbn [app lstrip]. rewrite Hd. reflexivity.
Qed.

(* ================================================================================================
   2. the token relation, as propositions
   ================================================================================================ *)
Definition tok_skel (a b : tok) : Prop :=
  fst a = fst b /\
  (if is_kw_tok a
   then collapse (upper (snd a)) = collapse (upper (snd b))
        /\ end_multi a = end_multi b
        /\ (ttype_eqb (fst a) T_Keyword = true -> go_word a = go_word b)
   else snd a = snd b).

Lemma eqb_true_eq (x y : bool) : Bool.eqb x y = true -> x = y.
Proof. destruct x, y; simpl; congruence. Qed.

Lemma tok_skelb_spec a b : tok_skelb true a b = true -> tok_skel a b.
Proof.
  unfold tok_skelb, tok_skel0b, tok_guardb, skey, tok_skel. cbn [negb orb].
  intros H. apply andb_true_iff in H. destruct H as [H G].
  apply andb_true_iff in H. destruct H as [Hty Hv].
  apply ttype_eqb_eq in Hty. cbn [fst snd] in Hv. apply text_eqb_eq in Hv.
  split; [exact Hty|].
  assert (K : is_kw_tok b = is_kw_tok a) by (unfold is_kw_tok; rewrite Hty; reflexivity).
  rewrite K in Hv. destruct (is_kw_tok a) eqn:Ka.
  - cbn [negb orb] in G. apply andb_true_iff in G. destruct G as [G1 G2].
    split; [exact Hv|]. split; [apply eqb_true_eq, G1|].
    intros Hk. rewrite Hk in G2. cbn [negb orb] in G2. apply eqb_true_eq, G2.
  - exact Hv.
Qed.

Lemma tok_skel_skey a b : tok_skel a b -> skey a = skey b.
Proof.
  intros [Hty H]. unfold skey.
  assert (K : is_kw_tok b = is_kw_tok a) by (unfold is_kw_tok; rewrite Hty; reflexivity).
  rewrite K, Hty. destruct (is_kw_tok a).
  - destruct H as [H _]. unfold kw_key. rewrite H. reflexivity.
  - rewrite H. reflexivity.
Qed.

Lemma kw_not_punct ty : tin ty T_Keyword = true -> ttype_eqb ty T_Punctuation = false.
Proof.
  intros H. destruct (ttype_eqb ty T_Punctuation) eqn:E; [|reflexivity].
  apply punct_not_kw in E. unfold T_Keyword in H. congruence.
Qed.

(* the level function cannot tell two skeleton-related tokens apart *)
Lemma csl_skel st a b :
  tok_skel a b -> change_splitlevel st (fst a) (snd a) = change_splitlevel st (fst b) (snd b).
Proof.
  intros [Hty H]. destruct (is_kw_tok a) eqn:Ka.
  2:{ rewrite Hty, H. reflexivity. }
  destruct H as (Hc & _ & _). rewrite <- Hty.
  unfold is_kw_tok in Ka. pose proof (kw_not_punct _ Ka) as Hp.
  unfold T_Keyword, T_Punctuation in *.
  unfold change_splitlevel. rewrite Hp, Ka. cbn [andb negb].
  rewrite (join_split_collapse _ _ Hc). reflexivity.
Qed.

(* the guard follows from the unguarded relation: the tables compare the collapsed upper-cased spelling *)
Lemma guard_free a b :
  fst a = fst b -> collapse (upper (snd a)) = collapse (upper (snd b)) ->
  end_multi a = end_multi b /\ go_word a = go_word b.
Proof.
  intros Hty Hc. unfold end_multi, go_word.
  rewrite (join_split_collapse _ _ Hc), !upper_first_word, (first_word_collapse _ _ Hc). auto.
Qed.

Lemma tok_skel0b_guard a b : tok_skel0b a b = true -> tok_guardb a b = true.
Proof.
  unfold tok_skel0b, tok_guardb, skey. intros H. apply andb_true_iff in H. destruct H as [Hty Hv].
  apply ttype_eqb_eq in Hty. cbn [fst snd] in Hv. apply text_eqb_eq in Hv.
  assert (K : is_kw_tok b = is_kw_tok a) by (unfold is_kw_tok; rewrite Hty; reflexivity).
  rewrite K in Hv. destruct (is_kw_tok a) eqn:Ka; [|reflexivity]. cbn [negb orb].
  unfold kw_key in Hv. destruct (guard_free a b Hty Hv) as [E G]. rewrite E, G, !eqb_reflx.
  destruct (ttype_eqb (fst a) T_Keyword); reflexivity.
Qed.

Lemma tok_skelb_any g a b : tok_skelb false a b = true -> tok_skelb g a b = true.
Proof.
  unfold tok_skelb. cbn [negb orb]. rewrite andb_true_r. intros H. rewrite H, (tok_skel0b_guard _ _ H).
  destruct g; reflexivity.
Qed.

Lemma term_skel lv a b :
  tok_skel a b -> is_terminator lv (fst a) (snd a) = is_terminator lv (fst b) (snd b).
Proof.
  intros [Hty H]. rewrite !terminator_spec. unfold is_semi, is_go. rewrite <- Hty.
  destruct (is_kw_tok a) eqn:Ka.
  - unfold is_kw_tok in Ka. rewrite (kw_not_punct _ Ka). cbn [andb].
    destruct H as (_ & _ & Hg).
    destruct (ttype_eqb (fst a) T_Keyword) eqn:Hk; [|reflexivity].
    specialize (Hg eq_refl). unfold go_word, w_GO in *. rewrite Hg. reflexivity.
  - rewrite H. reflexivity.
Qed.

(* ================================================================================================
   3. whitespace tokens are invisible to the state
   ================================================================================================ *)
Lemma tin_ws_shape ty : tin ty T_Whitespace = true -> exists r, ty = Text :: Whitespace :: r.
Proof.
  unfold T_Whitespace. destruct ty as [|x [|y r]]; cbn [tin]; intros H; try discriminate.
  - rewrite andb_false_r in H. discriminate.
  - apply andb_true_iff in H. destruct H as [H1 H2]. apply andb_true_iff in H2. destruct H2 as [H2 _].
    apply tcomp_eqb_eq in H1. apply tcomp_eqb_eq in H2. subst. eexists; reflexivity.
Qed.

Definition addacc (s : pstate) (w : list tok) : pstate :=
  {| ss := ss s; consume_ws := consume_ws s; acc := w ++ acc s; level := level s |}.

Lemma ws_step s tk : is_ws_tok tk = true -> PS s tk = addacc s [tk].
Proof.
  intros H. unfold is_ws_tok in H. destruct (tin_ws_shape _ H) as [r Hr].
  rewrite pstep_eq.
  assert (Hk : tin (fst tk) T_Keyword = false) by (rewrite Hr; reflexivity).
  assert (Hl : is_lparen tk = false) by (unfold is_lparen; rewrite Hr; reflexivity).
  assert (Hrp : is_rparen tk = false) by (unfold is_rparen; rewrite Hr; reflexivity).
  rewrite (csl_other _ _ Hk Hl Hrp), terminator_spec.
  assert (Hs : is_semi tk = false) by (unfold is_semi; rewrite Hr; reflexivity).
  assert (Hg : is_go tk = false) by (unfold is_go; rewrite Hr; reflexivity).
  rewrite Hs, Hg, andb_false_r, orb_false_r, Z.add_0_r. reflexivity.
Qed.

Lemma sig_app l l' : sig (l ++ l') = sig l ++ sig l'.
Proof. unfold sig. rewrite filter_app, map_app. reflexivity. Qed.

Lemma sig_rev l : sig (rev l) = rev (sig l).
Proof.
  induction l as [|x l IH]; [reflexivity|]. cbn [rev]. rewrite sig_app, IH.
  unfold sig. cbn [filter]. destruct (negb (is_ws_tok x)); cbn [map rev app]; [reflexivity|].
  rewrite app_nil_r. reflexivity.
Qed.

Lemma sig_ws w : forallb is_ws_tok w = true -> sig w = [].
Proof.
  induction w as [|x w IH]; intros H; [reflexivity|]. cbn [forallb] in H.
  apply andb_true_iff in H. destruct H as [Hx Hw]. unfold sig in *. cbn [filter].
  rewrite Hx. cbn [negb]. apply IH, Hw.
Qed.

Lemma sig_cons_sig a l : is_ws_tok a = false -> sig (a :: l) = skey a :: sig l.
Proof. intros H. unfold sig. cbn [filter]. rewrite H. reflexivity. Qed.

Lemma sig_nil_ws l : sig l = [] -> forallb is_ws_tok l = true.
Proof.
  induction l as [|x l IH]; intros H; [reflexivity|]. cbn [forallb].
  destruct (is_ws_tok x) eqn:Hx.
  - cbn [andb]. apply IH. unfold sig in *. cbn [filter] in H. rewrite Hx in H. exact H.
  - rewrite (sig_cons_sig _ _ Hx) in H. discriminate.
Qed.

(* the end of the stream, in terms of the significant tokens of the pending statement *)
Lemma PG_nil_sig s :
  stmt_sigs (PG s []) = if nilb (sig (acc s)) then [] else [rev (sig (acc s))].
Proof.
  cbn [process_go]. destruct (acc s) as [|x l] eqn:E; [reflexivity|].
  destruct (forallb is_ws_tok (x :: l)) eqn:F.
  - rewrite (sig_ws _ F). reflexivity.
  - destruct (sig (x :: l)) eqn:G.
    + apply sig_nil_ws in G. congruence.
    + unfold stmt_sigs. cbn [map]. rewrite sig_rev, G. reflexivity.
Qed.

Definition Fresh (s : pstate) : Prop :=
  ss s = reset_sstate /\ level s = 0 /\ consume_ws s = false /\ sig (acc s) = [].

Lemma fresh_add s w : Fresh s -> forallb is_ws_tok w = true -> Fresh (addacc s w).
Proof.
  intros (H1 & H2 & H3 & H4) Hw. unfold Fresh, addacc. cbn [ss level consume_ws acc].
  rewrite sig_app, (sig_ws _ Hw), H4. auto.
Qed.

Lemma addacc_addacc s w w' : addacc (addacc s w) w' = addacc s (w' ++ w).
Proof. unfold addacc. cbn [ss level consume_ws acc]. rewrite app_assoc. reflexivity. Qed.

(* a whitespace run on a state that does not wait for the end of a statement *)
Lemma ws_run_quiet : forall w s rest,
  forallb is_ws_tok w = true -> consume_ws s = false ->
  PG s (w ++ rest) = PG (addacc s (rev w)) rest.
Proof.
  induction w as [|tk w IH]; intros s rest Hw Hc.
  - cbn [app rev]. destruct s; reflexivity.
  - cbn [forallb] in Hw. apply andb_true_iff in Hw. destruct Hw as [Ht Hw].
    cbn [app]. rewrite (PG_noconsume _ _ _ Hc), (ws_step _ _ Ht), (IH (addacc s [tk]) rest Hw Hc).
    rewrite addacc_addacc. cbn [rev]. reflexivity.
Qed.

(* the effect of a whitespace run: either nothing but accumulation, or -- after a terminator, when
   the run contains a break -- the pending statement is yielded and a fresh one has started *)
Lemma ws_run_effect : forall w s rest,
  forallb is_ws_tok w = true ->
  (exists w1, PG s (w ++ rest) = PG (addacc s w1) rest /\ forallb is_ws_tok w1 = true
              /\ (consume_ws s = true -> has_brk w = false))
  \/ (exists st0 s1, PG s (w ++ rest) = st0 :: PG s1 rest /\ sig st0 = rev (sig (acc s))
                     /\ Fresh s1 /\ consume_ws s = true /\ has_brk w = true).
Proof.
  induction w as [|tk w IH]; intros s rest Hw.
  - left. exists []. cbn [app]. split; [destruct s; reflexivity|]. split; reflexivity.
  - cbn [forallb] in Hw. apply andb_true_iff in Hw. destruct Hw as [Ht Hw].
    destruct (consume_ws s) eqn:Hc.
    + destruct (EOS (fst tk)) eqn:He.
      * cbn [app]. rewrite (PG_eos _ _ _ He), (ws_step _ _ Ht).
        destruct (IH (addacc s [tk]) rest Hw) as [(w1 & E & Hw1 & Hb)|(st0 & s1 & E & Hs & Hf & _ & Hb)].
        -- left. exists (w1 ++ [tk]). rewrite E, addacc_addacc. split; [reflexivity|].
           split; [rewrite forallb_app, Hw1; cbn [forallb]; rewrite Ht; reflexivity|].
           intros _. unfold has_brk in *. cbn [forallb]. rewrite He. cbn [andb]. apply Hb. exact Hc.
        -- right. exists st0, s1. split; [exact E|]. split.
           { rewrite Hs. unfold addacc. cbn [acc]. rewrite sig_app, (sig_ws [tk]); [reflexivity|].
             cbn [forallb]. rewrite Ht. reflexivity. }
           split; [exact Hf|]. split; [reflexivity|].
           unfold has_brk in *. cbn [forallb]. rewrite He. exact Hb.
      * right. cbn [app]. rewrite (PG_yield _ _ _ Hc He), (PG_noconsume PI _ _ eq_refl), (ws_step _ _ Ht).
        rewrite (ws_run_quiet w (addacc PI [tk]) rest Hw eq_refl), addacc_addacc.
        eexists; eexists. split; [reflexivity|]. split; [apply sig_rev|].
        split.
        { apply fresh_add; [repeat split|].
          rewrite forallb_app, forallb_rev, Hw. cbn [forallb]. rewrite Ht. reflexivity. }
        split; [reflexivity|]. unfold has_brk. cbn [forallb]. rewrite He. reflexivity.
    + left. exists (rev (tk :: w)). rewrite <- (ws_run_quiet (tk :: w) s rest); [|cbn [forallb]; rewrite Ht, Hw; reflexivity|exact Hc].
      split; [reflexivity|]. split; [|discriminate].
      rewrite forallb_rev. cbn [forallb]. rewrite Ht, Hw. reflexivity.
Qed.

(* ================================================================================================
   4. the simulation
   ================================================================================================ *)
Definition R (s s' : pstate) : Prop :=
  ss s = ss s' /\ level s = level s' /\ consume_ws s = consume_ws s'
  /\ sig (acc s) = sig (acc s') /\ (consume_ws s = true -> sig (acc s) <> []).

Lemma R_sym s s' : R s s' -> R s' s.
Proof. intros (H1 & H2 & H3 & H4 & H5). repeat split; try congruence. rewrite <- H3, <- H4. exact H5. Qed.

Lemma R_fresh s s' : Fresh s -> Fresh s' -> R s s'.
Proof.
  intros (H1 & H2 & H3 & H4) (H1' & H2' & H3' & H4'). repeat split; try congruence.
Qed.

Lemma fresh_PI : Fresh PI.
Proof. repeat split. Qed.

Lemma R_add s s' w w' :
  R s s' -> forallb is_ws_tok w = true -> forallb is_ws_tok w' = true -> R (addacc s w) (addacc s' w').
Proof.
  intros (H1 & H2 & H3 & H4 & H5) Hw Hw'. unfold R, addacc. cbn [ss level consume_ws acc].
  rewrite !sig_app, (sig_ws _ Hw), (sig_ws _ Hw'). cbn [app]. auto.
Qed.

Lemma R_step s s' a b :
  R s s' -> tok_skel a b -> is_ws_tok a = false -> is_ws_tok b = false -> R (PS s a) (PS s' b).
Proof.
  intros (H1 & H2 & H3 & H4 & H5) Hab Ha Hb. rewrite !pstep_eq.
  rewrite <- H1, <- H2, <- H3, <- (csl_skel _ _ _ Hab).
  destruct (change_splitlevel (ss s) (fst a) (snd a)) as [s2 d].
  rewrite <- (term_skel _ _ _ Hab). unfold R. cbn [ss level consume_ws acc].
  rewrite (sig_cons_sig _ _ Ha), (sig_cons_sig _ _ Hb), (tok_skel_skey _ _ Hab), H4.
  repeat split. intros _. discriminate.
Qed.

Lemma nonws_eos_same a b : tok_skel a b -> EOS (fst a) = EOS (fst b).
Proof. intros [H _]. rewrite H. reflexivity. Qed.

(* one significant token, from related states *)
Lemma tok_step_sim s s' a b rest rest' :
  R s s' -> tok_skel a b -> is_ws_tok a = false -> is_ws_tok b = false ->
  (forall t t', R t t' -> stmt_sigs (PG t rest) = stmt_sigs (PG t' rest')) ->
  stmt_sigs (PG s (a :: rest)) = stmt_sigs (PG s' (b :: rest')).
Proof.
  intros HR Hab Ha Hb IH.
  pose proof HR as (H1 & H2 & H3 & H4 & H5).
  destruct (consume_ws s && negb (EOS (fst a))) eqn:G.
  - apply andb_true_iff in G. destruct G as [Hc He]. apply negb_true_iff in He.
    rewrite (PG_yield _ _ _ Hc He).
    rewrite (nonws_eos_same _ _ Hab) in He. rewrite H3 in Hc. rewrite (PG_yield _ _ _ Hc He).
    rewrite !(PG_noconsume PI _ _ eq_refl). unfold stmt_sigs. cbn [map]. rewrite !sig_rev, H4.
    f_equal. apply IH. apply R_step; auto. apply R_fresh; apply fresh_PI.
  - assert (E : PG s (a :: rest) = PG (PS s a) rest) by (cbn [process_go]; rewrite G; reflexivity).
    assert (E' : PG s' (b :: rest') = PG (PS s' b) rest').
    { cbn [process_go]. rewrite <- H3, <- (nonws_eos_same _ _ Hab), G. reflexivity. }
    rewrite E, E'. apply IH. apply R_step; auto.
Qed.

Definition chunk_rel (c c' : chunk) : Prop :=
  forallb is_ws_tok (fst c) = true /\ forallb is_ws_tok (fst c') = true
  /\ is_ws_tok (snd c) = false /\ is_ws_tok (snd c') = false
  /\ tok_skel (snd c) (snd c')
  /\ (EOS (fst (snd c)) = true -> has_brk (fst c) = has_brk (fst c')).

Lemma chunk_relb_spec sup c c' : chunk_relb true sup c c' = true -> chunk_rel c c'.
Proof.
  destruct c as [w a], c' as [w' b]. unfold chunk_relb, chunk_rel. cbn [fst snd negb orb].
  intros H. repeat (apply andb_true_iff in H; destruct H as [H ?]).
  repeat split; auto.
  - apply negb_true_iff. assumption.
  - apply negb_true_iff. assumption.
  - apply tok_skelb_spec. assumption.
  - apply tok_skelb_spec. assumption.
  - intros He. match goal with X : negb (EOS (fst a)) || _ = true |- _ => rewrite He in X; cbn in X;
      apply eqb_true_eq in X; exact X end.
Qed.

Lemma fresh_R_PI s : Fresh s -> R s PI.
Proof. intros H. apply R_fresh; [exact H|apply fresh_PI]. Qed.

Lemma chunks_sim : forall cs cs', Forall2 chunk_rel cs cs' -> forall tr tr' s s',
  forallb is_ws_tok tr = true -> forallb is_ws_tok tr' = true -> R s s' ->
  stmt_sigs (PG s (unchunk cs tr)) = stmt_sigs (PG s' (unchunk cs' tr')).
Proof.
  induction 1 as [|[w a] [w' b] cs cs' Hc _ IH]; intros tr tr' s s' Htr Htr' HR.
  - (* trailing runs *)
    cbn [unchunk]. pose proof HR as (H1 & H2 & H3 & H4 & H5).
    rewrite <- (app_nil_r tr), <- (app_nil_r tr').
    destruct (ws_run_effect tr s [] Htr) as [(w1 & E & Hw1 & Hb)|(st0 & s1 & E & Hs & Hf & Hcs & Hb)];
      destruct (ws_run_effect tr' s' [] Htr') as [(w1' & E' & Hw1' & Hb')|(st0' & s1' & E' & Hs' & Hf' & Hcs' & Hb')];
      rewrite E, E'.
    + rewrite !PG_nil_sig. unfold addacc. cbn [acc]. rewrite !sig_app, (sig_ws _ Hw1), (sig_ws _ Hw1'), H4.
      reflexivity.
    + unfold stmt_sigs at 2. cbn [map]. fold (stmt_sigs (PG s1' [])). rewrite !PG_nil_sig.
      destruct Hf' as (_ & _ & _ & Hf'). rewrite Hf', Hs'. cbn [nilb].
      unfold addacc. cbn [acc]. rewrite sig_app, (sig_ws _ Hw1), H4. cbn [app].
      rewrite <- H3 in Hcs'. specialize (H5 Hcs'). rewrite H4 in H5.
      destruct (sig (acc s')); [congruence|reflexivity].
    + unfold stmt_sigs at 1. cbn [map]. fold (stmt_sigs (PG s1 [])). rewrite !PG_nil_sig.
      destruct Hf as (_ & _ & _ & Hf). rewrite Hf, Hs. cbn [nilb].
      unfold addacc. cbn [acc]. rewrite sig_app, (sig_ws _ Hw1'), <- H4. cbn [app].
      specialize (H5 Hcs). destruct (sig (acc s)); [congruence|reflexivity].
    + unfold stmt_sigs. cbn [map]. fold (stmt_sigs (PG s1 [])). fold (stmt_sigs (PG s1' [])).
      rewrite !PG_nil_sig. destruct Hf as (_ & _ & _ & Hf). destruct Hf' as (_ & _ & _ & Hf').
      rewrite Hf, Hf', Hs, Hs', H4. reflexivity.
  - destruct Hc as (Hw & Hw' & Ha & Hb & Hab & Hg). cbn [fst snd] in *.
    cbn [unchunk]. pose proof HR as (H1 & H2 & H3 & H4 & H5).
    assert (IH' : forall t t', R t t' -> stmt_sigs (PG t (unchunk cs tr)) = stmt_sigs (PG t' (unchunk cs' tr')))
      by (intros t t' Ht; apply IH; assumption).
    destruct (ws_run_effect w s (a :: unchunk cs tr) Hw) as [(w1 & E & Hw1 & Hbk)|(st0 & s1 & E & Hs & Hf & Hcs & Hbk)];
      destruct (ws_run_effect w' s' (b :: unchunk cs' tr') Hw') as [(w1' & E' & Hw1' & Hbk')|(st0' & s1' & E' & Hs' & Hf' & Hcs' & Hbk')];
      rewrite E, E'.
    + apply tok_step_sim; auto. apply R_add; assumption.
    + (* the right stream broke the statement inside the run, the left one has not yet *)
      assert (He : EOS (fst a) = false).
      { destruct (EOS (fst a)) eqn:He; [|reflexivity]. specialize (Hg eq_refl).
        rewrite <- H3 in Hcs'. rewrite (Hbk Hcs'), Hbk' in Hg. discriminate. }
      rewrite <- H3 in Hcs'.
      assert (Hca : consume_ws (addacc s w1) = true) by exact Hcs'.
      rewrite (PG_yield _ _ _ Hca He).
      unfold stmt_sigs. cbn [map]. fold (stmt_sigs (PG PI (a :: unchunk cs tr))).
      fold (stmt_sigs (PG s1' (b :: unchunk cs' tr'))).
      f_equal.
      * rewrite sig_rev, Hs'. unfold addacc. cbn [acc]. rewrite sig_app, (sig_ws _ Hw1), H4. reflexivity.
      * apply tok_step_sim; auto. apply R_sym, fresh_R_PI, Hf'.
    + assert (He : EOS (fst b) = false).
      { rewrite <- (nonws_eos_same _ _ Hab). destruct (EOS (fst a)) eqn:He; [|reflexivity].
        specialize (Hg eq_refl). rewrite H3 in Hcs. rewrite (Hbk' Hcs), Hbk in Hg. discriminate. }
      rewrite H3 in Hcs.
      assert (Hca : consume_ws (addacc s' w1') = true) by exact Hcs.
      rewrite (PG_yield _ _ _ Hca He).
      unfold stmt_sigs. cbn [map]. fold (stmt_sigs (PG PI (b :: unchunk cs' tr'))).
      fold (stmt_sigs (PG s1 (a :: unchunk cs tr))).
      f_equal.
      * rewrite sig_rev, Hs. unfold addacc. cbn [acc]. rewrite sig_app, (sig_ws _ Hw1'), H4. reflexivity.
      * apply tok_step_sim; auto. apply fresh_R_PI, Hf.
    + unfold stmt_sigs. cbn [map]. fold (stmt_sigs (PG s1 (a :: unchunk cs tr))).
      fold (stmt_sigs (PG s1' (b :: unchunk cs' tr'))).
      f_equal; [rewrite Hs, Hs', H4; reflexivity|].
      apply tok_step_sim; auto. apply R_fresh; assumption.
Qed.

(* ================================================================================================
   5. from the executable relation
   ================================================================================================ *)
Lemma unchunk_chunks : forall l, unchunk (fst (chunks l)) (snd (chunks l)) = l.
Proof.
  induction l as [|tk l IH]; [reflexivity|]. cbn [chunks].
  destruct (chunks l) as [cs tr]. cbn [fst snd] in IH.
  destruct (is_ws_tok tk).
  - destruct cs as [|[w a] cs'].
    + cbn [fst snd unchunk] in *. rewrite IH. reflexivity.
    + cbn [fst snd unchunk] in *. cbn [app]. rewrite IH. reflexivity.
  - cbn [fst snd unchunk app]. rewrite IH. reflexivity.
Qed.

Lemma forall2b_Forall2 {A B} (f : A -> B -> bool) (P : A -> B -> Prop) :
  (forall x y, f x y = true -> P x y) -> forall l l', forall2b f l l' = true -> Forall2 P l l'.
Proof.
  intros Hf. induction l as [|x l IH]; destruct l' as [|y l']; cbn [forall2b]; intros H;
    try discriminate; constructor.
  - apply Hf. apply andb_true_iff in H. apply H.
  - apply IH. apply andb_true_iff in H. apply H.
Qed.

Theorem split_skel_invariant sup l l' :
  skel_gen true sup l l' = true ->
  stmt_sigs (process reset_sstate change_splitlevel eos_ttypes is_terminator l)
  = stmt_sigs (process reset_sstate change_splitlevel eos_ttypes is_terminator l').
Proof.
  unfold skel_gen. intros H.
  rewrite <- (unchunk_chunks l), <- (unchunk_chunks l').
  destruct (chunks l) as [cs tr]. destruct (chunks l') as [cs' tr']. cbn [fst snd].
  repeat (apply andb_true_iff in H; destruct H as [H ?]).
  unfold process. apply chunks_sim; auto.
  - apply (forall2b_Forall2 _ _ (chunk_relb_spec sup)). exact H.
  - apply R_fresh; apply fresh_PI.
Qed.

(* the skeleton with equal supports is a special case *)
Lemma chunk_relb_weaken c c' : chunk_relb true true c c' = true -> chunk_relb true false c c' = true.
Proof.
  destruct c as [w a], c' as [w' b]. unfold chunk_relb. cbn [negb orb]. intros H.
  apply andb_true_iff in H. destruct H as [H H7]. apply andb_true_iff in H. destruct H as [H H6].
  rewrite andb_true_r. apply andb_true_iff. split; assumption.
Qed.

Lemma skelb_split l l' : skelb l l' = true -> skel_splitb l l' = true.
Proof.
  unfold skelb, skel_splitb, skel_gen.
  destruct (chunks l) as [cs tr]. destruct (chunks l') as [cs' tr']. cbn [negb orb].
  intros H. apply andb_true_iff in H. destruct H as [H _].
  rewrite andb_true_r.
  apply andb_true_iff in H. destruct H as [H H3]. apply andb_true_iff in H. destruct H as [H H2].
  rewrite H2, H3, !andb_true_r.
  revert cs' H. induction cs as [|c cs IH]; destruct cs' as [|c' cs']; cbn [forall2b]; auto.
  intros H. apply andb_true_iff in H. destruct H as [H1 H4].
  rewrite (IH _ H4), (chunk_relb_weaken _ _ H1). reflexivity.
Qed.

Theorem split_skelb_invariant l l' :
  skelb l l' = true ->
  stmt_sigs (process reset_sstate change_splitlevel eos_ttypes is_terminator l)
  = stmt_sigs (process reset_sstate change_splitlevel eos_ttypes is_terminator l').
Proof. intros H. apply (split_skel_invariant true). exact H. Qed.

(* ---- without the spelling guard: the tables compare the collapsed, upper-cased spelling ------------- *)
Lemma chunk_relb_unguard sup c c' :
  chunk_relb false sup c c' = true -> chunk_brkb c c' = true -> chunk_relb true sup c c' = true.
Proof.
  destruct c as [w a], c' as [w' b]. unfold chunk_relb, chunk_brkb. cbn [negb orb fst snd].
  rewrite !andb_true_r. intros H B.
  apply andb_true_iff in H. destruct H as [H H6]. apply andb_true_iff in H. destruct H as [H H5].
  rewrite H, (tok_skelb_any true _ _ H5), H6, B. reflexivity.
Qed.

Lemma skel_gen_unguard sup l l' :
  skel_gen false sup l l' = true -> brk_agreeb l l' = true -> skel_gen true sup l l' = true.
Proof.
  unfold skel_gen, brk_agreeb.
  destruct (chunks l) as [cs tr]. destruct (chunks l') as [cs' tr']. cbn [fst].
  intros H B. apply andb_true_iff in H. destruct H as [H H4].
  apply andb_true_iff in H. destruct H as [H H3]. apply andb_true_iff in H. destruct H as [H H2].
  rewrite H2, H3, H4, !andb_true_r.
  revert cs' H B. induction cs as [|c cs IH]; destruct cs' as [|c' cs']; cbn [forall2b]; auto.
  intros H B. apply andb_true_iff in H. destruct H as [H1 Hr]. apply andb_true_iff in B. destruct B as [B1 Br].
  rewrite (chunk_relb_unguard _ _ _ H1 B1), (IH _ Hr Br). reflexivity.
Qed.

(* THE skeleton relation of C11 (same significant tokens up to keyword case and inner whitespace, runs
   non-empty at the same places), no guard on the spelling of any keyword *)
Theorem split_skel0_invariant l l' :
  skel0b l l' = true -> brk_agreeb l l' = true ->
  stmt_sigs (process reset_sstate change_splitlevel eos_ttypes is_terminator l)
  = stmt_sigs (process reset_sstate change_splitlevel eos_ttypes is_terminator l').
Proof. intros H B. apply split_skelb_invariant, skel_gen_unguard; assumption. Qed.

(* ================================================================================================
   6. from a token-by-token relation between two streams of the same types (what the lexer-level
      invariance theorems deliver)
   ================================================================================================ *)
Lemma forallb_map_fst (f : ttype -> bool) (w : list tok) :
  forallb (fun tk => f (fst tk)) w = forallb f (map fst w).
Proof. induction w as [|x w IH]; cbn [forallb map]; [reflexivity|]. rewrite IH. reflexivity. Qed.

Lemma has_brk_types w w' : map fst w = map fst w' -> has_brk w = has_brk w'.
Proof. intros H. unfold has_brk. rewrite !forallb_map_fst, H. reflexivity. Qed.

Section Pointwise.
Variable Q : tok -> tok -> Prop.
Hypothesis Q_ty : forall a b, Q a b -> fst a = fst b.
Hypothesis Q_skel : forall a b, Q a b -> is_ws_tok a = false -> tok_skel a b.

Definition chunk_rel2 (c c' : chunk) : Prop := chunk_rel c c' /\ map fst (fst c) = map fst (fst c').

Lemma chunks_pointwise : forall l l', Forall2 Q l l' ->
  Forall2 chunk_rel2 (fst (chunks l)) (fst (chunks l'))
  /\ forallb is_ws_tok (snd (chunks l)) = true /\ forallb is_ws_tok (snd (chunks l')) = true.
Proof.
  induction 1 as [|a b l l' Hab _ IH]; [repeat split; constructor|].
  cbn [chunks]. destruct (chunks l) as [cs tr]. destruct (chunks l') as [cs' tr'].
  cbn [fst snd] in IH. destruct IH as (Hcs & Htr & Htr').
  assert (Hw : is_ws_tok b = is_ws_tok a) by (unfold is_ws_tok; rewrite (Q_ty _ _ Hab); reflexivity).
  rewrite Hw. destruct (is_ws_tok a) eqn:Wa.
  - destruct Hcs as [|[w x] [w' y] cs1 cs1' [Hc Hm] Hrest].
    + cbn [fst snd forallb]. rewrite Wa, Hw, Htr, Htr'. repeat split; constructor.
    + cbn [fst snd]. split; [|split; assumption]. constructor; [|exact Hrest].
      destruct Hc as (H1 & H2 & H3 & H4 & H5 & H6). cbn [fst snd] in *.
      split; cbn [fst snd].
      * unfold chunk_rel. cbn [fst snd forallb]. rewrite Wa, Hw, H1, H2.
        split; [reflexivity|]. split; [reflexivity|]. split; [exact H3|]. split; [exact H4|].
        split; [exact H5|].
        intros _. apply has_brk_types. cbn [map]. rewrite (Q_ty _ _ Hab), Hm. reflexivity.
      * cbn [map]. rewrite (Q_ty _ _ Hab), Hm. reflexivity.
  - cbn [fst snd]. split; [|split; assumption]. constructor; [|exact Hcs].
    split; [|reflexivity]. unfold chunk_rel. cbn [fst snd forallb].
    split; [reflexivity|]. split; [reflexivity|]. split; [exact Wa|]. split; [exact Hw|].
    split; [apply Q_skel; assumption|]. intros _. reflexivity.
Qed.

Theorem split_pointwise l l' :
  Forall2 Q l l' ->
  stmt_sigs (process reset_sstate change_splitlevel eos_ttypes is_terminator l)
  = stmt_sigs (process reset_sstate change_splitlevel eos_ttypes is_terminator l').
Proof.
  intros H. destruct (chunks_pointwise l l' H) as (Hcs & Htr & Htr').
  rewrite <- (unchunk_chunks l), <- (unchunk_chunks l'). unfold process.
  apply chunks_sim; auto.
  - clear - Hcs. induction Hcs as [|c c' cs cs' [Hc _] _ IH]; constructor; assumption.
  - apply R_fresh; apply fresh_PI.
Qed.
End Pointwise.

Print Assumptions split_skel_invariant.
Print Assumptions split_skel0_invariant.
Print Assumptions split_pointwise.
