(* The split-level protocol of the CURRENT (regenerated) _change_splitlevel / terminator test,
   characterised token class by token class, and the two script-level theorems built on it:
   plain statements (C05) and CREATE ... BEGIN ... END; bodies (C17) are split as units. *)
From SqlModel Require Import Base PyStr SplitDefs Splitter SplitFacts.
From SqlModel.Gen Require Import CaseTabs SplitTab.
From Coq Require Import ZArith Lia.
Local Open Scope Z_scope.

Notation PG := (process_go reset_sstate change_splitlevel eos_ttypes is_terminator).
Notation PS := (pstep change_splitlevel is_terminator).
Notation PI := (pinit reset_sstate).
Notation EOS := (in_eos eos_ttypes).

Definition w_DECLARE := [68; 69; 67; 76; 65; 82; 69]%N.
Definition w_BEGIN := [66; 69; 71; 73; 78]%N.
Definition w_END := [69; 78; 68]%N.
Definition w_IF := [73; 70]%N.
Definition w_FOR := [70; 79; 82]%N.
Definition w_WHILE := [87; 72; 73; 76; 69]%N.
Definition w_CASE := [67; 65; 83; 69]%N.
Definition w_END_IF := [69; 78; 68; 32; 73; 70]%N.
Definition w_END_FOR := [69; 78; 68; 32; 70; 79; 82]%N.
Definition w_END_WHILE := [69; 78; 68; 32; 87; 72; 73; 76; 69]%N.
Definition w_GO := [71; 79]%N.
Definition w_CREATE := [67; 82; 69; 65; 84; 69]%N.

Definition is_semi (tk : tok) : bool := ttype_eqb (fst tk) T_Punctuation && text_eqb (snd tk) [59]%N.
Definition is_lparen (tk : tok) : bool := ttype_eqb (fst tk) T_Punctuation && text_eqb (snd tk) [40]%N.
Definition is_rparen (tk : tok) : bool := ttype_eqb (fst tk) T_Punctuation && text_eqb (snd tk) [41]%N.
Definition is_go (tk : tok) : bool :=
  ttype_eqb (fst tk) T_Keyword && text_eqb (upper (first_word space_set (snd tk))) w_GO.
(* `unified` of _change_splitlevel: upper-cased, the white space between the words of a compound keyword
   collapsed to one blank *)
Definition unified (v : text) : text := join_split space_set (upper v).
(* a keyword token (any sub-type, any letter case, any white space between its words) spelling one of the words *)
Definition kw_among (tk : tok) (ws : list (list N)) : bool :=
  tin (fst tk) T_Keyword && existsb (text_eqb (unified (snd tk))) ws.
Definition kw_is (tk : tok) (w : list N) : bool := kw_among tk [w].
Definition is_create_ddl (tk : tok) : bool :=
  ttype_eqb (fst tk) T_DDL && text_prefixb w_CREATE (unified (snd tk)).

Definition paren_delta (tk : tok) : Z := if is_lparen tk then 1 else if is_rparen tk then -1 else 0.
Fixpoint net (p : list tok) : Z := match p with [] => 0 | tk :: r => paren_delta tk + net r end.

Lemma net_app p q : net (p ++ q) = net p + net q.
Proof. induction p as [|tk p IH]; simpl; lia. Qed.

Definition semi : tok := (T_Punctuation, [59]%N).

(* ---- destructing the generated decision chain ------------------------------------------------ *)
Ltac csl_cases :=
  unfold change_splitlevel;
  repeat match goal with
         | |- context [if ?b then _ else _] => let E := fresh "E" in destruct b eqn:E
         end.

Lemma tin_kw_of_eq ty : ttype_eqb ty [Keyword] = true -> tin ty [Keyword] = true.
Proof. intros H. apply ttype_eqb_eq in H. subst. reflexivity. Qed.

Lemma ddl_is_kw ty : ttype_eqb ty [Keyword; DDL] = true -> tin ty [Keyword] = true.
Proof. intros H. apply ttype_eqb_eq in H. subst. reflexivity. Qed.

Lemma punct_not_kw ty : ttype_eqb ty [Punctuation] = true -> tin ty [Keyword] = false.
Proof. intros H. apply ttype_eqb_eq in H. subst. reflexivity. Qed.

(* the terminator test, in terms of the token classes *)
Lemma terminator_spec lv tk :
  is_terminator lv (fst tk) (snd tk) = (Z.leb lv 0 && is_semi tk) || is_go tk.
Proof. unfold is_terminator, is_semi, is_go, w_GO, T_Punctuation, T_Keyword. reflexivity. Qed.

(* a token that is neither a keyword nor a parenthesis leaves level and flags alone *)
Lemma csl_other st tk :
  tin (fst tk) T_Keyword = false -> is_lparen tk = false -> is_rparen tk = false ->
  change_splitlevel st (fst tk) (snd tk) = (st, 0).
Proof.
  unfold is_lparen, is_rparen, T_Punctuation, T_Keyword. intros Hk Hl Hr.
  unfold change_splitlevel. rewrite Hl, Hr, Hk. reflexivity.
Qed.

Lemma csl_lparen st tk : is_lparen tk = true -> change_splitlevel st (fst tk) (snd tk) = (st, 1).
Proof. unfold is_lparen, T_Punctuation. intros H. unfold change_splitlevel. rewrite H. reflexivity. Qed.

Lemma csl_rparen st tk :
  is_lparen tk = false -> is_rparen tk = true -> change_splitlevel st (fst tk) (snd tk) = (st, -1).
Proof.
  unfold is_lparen, is_rparen, T_Punctuation. intros H1 H2.
  unfold change_splitlevel. rewrite H1, H2. reflexivity.
Qed.

Lemma lparen_not_rparen tk : is_lparen tk = true -> is_rparen tk = false.
Proof.
  unfold is_lparen, is_rparen. intros H. apply andb_true_iff in H. destruct H as [_ H].
  apply text_eqb_eq in H. rewrite H. apply andb_false_r.
Qed.

(* ================================================================================================
   C05: plain statements
   ================================================================================================ *)
(* tokens of a plain (non-procedural) statement: no `;`, no GO, none of the block keywords that
   move the level while no BEGIN is open.  END (of a CASE expression) is allowed: it only lowers. *)
Definition plain_tok (tk : tok) : bool :=
  negb (is_semi tk) && negb (is_go tk)
  && negb (kw_among tk [w_DECLARE; w_BEGIN; w_END_IF; w_END_FOR; w_END_WHILE]).

Definition I0 (st : sstate) : Prop := begin_depth st = 0 /\ case_depth st = 0.

Lemma csl_plain st tk :
  plain_tok tk = true -> I0 st ->
  exists st' d, change_splitlevel st (fst tk) (snd tk) = (st', d) /\ I0 st' /\ d <= paren_delta tk.
Proof.
  intros Hp [Hb Hc].
  destruct (is_lparen tk) eqn:Hl.
  { rewrite (csl_lparen _ _ Hl). exists st, 1. unfold paren_delta, I0. rewrite Hl. repeat split; auto; lia. }
  destruct (is_rparen tk) eqn:Hr.
  { rewrite (csl_rparen _ _ Hl Hr). exists st, (-1). unfold paren_delta, I0. rewrite Hl, Hr.
    repeat split; auto; lia. }
  destruct (tin (fst tk) T_Keyword) eqn:Hk.
  2:{ rewrite (csl_other _ _ Hk Hl Hr). exists st, 0. unfold paren_delta, I0. rewrite Hl, Hr.
      repeat split; auto; lia. }
  unfold plain_tok, kw_among in Hp. rewrite Hk in Hp. cbn [andb existsb] in Hp.
  apply andb_true_iff in Hp. destruct Hp as [_ Hp]. apply negb_true_iff in Hp.
  repeat (apply orb_false_iff in Hp; destruct Hp as [? Hp]).
  unfold paren_delta. rewrite Hl, Hr.
  unfold is_lparen, is_rparen, T_Punctuation, T_Keyword in *.
  unfold w_DECLARE, w_BEGIN, w_END_IF, w_END_FOR, w_END_WHILE in *.
  unfold unified in *. unfold change_splitlevel. rewrite Hl, Hr, Hk. cbn [negb].
  unfold I0. cbv zeta.
  repeat match goal with
         | |- context [if ?b then _ else _] => let E := fresh "E" in destruct b eqn:E
         end;
    try (eexists; eexists; split; [reflexivity|]; cbn; rewrite ?Hb, ?Hc; repeat split; auto; lia);
    repeat match goal with
           | H : andb _ _ = true |- _ => apply andb_true_iff in H; destruct H
           | H : orb _ _ = true |- _ => apply orb_true_iff in H; destruct H
           end;
    try congruence;
    try (rewrite Hb in *; discriminate).
Qed.

(* ---- the process loop over a run of plain tokens ----------------------------------------------- *)
Lemma pstep_eq st tk :
  PS st tk =
  let '(s', d) := change_splitlevel (ss st) (fst tk) (snd tk) in
  {| ss := s'; consume_ws := consume_ws st || is_terminator (level st + d) (fst tk) (snd tk);
     acc := tk :: acc st; level := level st + d |}.
Proof. unfold pstep. destruct tk as [ty v]. reflexivity. Qed.

Lemma PG_noconsume st tk rest :
  consume_ws st = false -> PG st (tk :: rest) = PG (PS st tk) rest.
Proof. intros H. cbn [process_go]. rewrite H. reflexivity. Qed.

Lemma PG_eos st tk rest :
  EOS (fst tk) = true -> PG st (tk :: rest) = PG (PS st tk) rest.
Proof. intros H. cbn [process_go]. rewrite H, andb_false_r. reflexivity. Qed.

Lemma PG_yield st tk rest :
  consume_ws st = true -> EOS (fst tk) = false ->
  PG st (tk :: rest) = rev (acc st) :: PG PI (tk :: rest).
Proof.
  intros H1 H2. cbn [process_go]. rewrite H1, H2. cbn [andb negb].
  replace (consume_ws PI) with false by reflexivity. reflexivity.
Qed.

Lemma plain_run : forall p st rest,
  forallb plain_tok p = true -> I0 (ss st) -> consume_ws st = false ->
  exists st', PG st (p ++ rest) = PG st' rest /\ I0 (ss st') /\ consume_ws st' = false
              /\ level st' <= level st + net p /\ acc st' = rev p ++ acc st.
Proof.
  induction p as [|tk p IH]; intros st rest Hp Hi Hc.
  - exists st. cbn [app net rev]. repeat split; auto; try apply Hi; lia.
  - cbn [forallb] in Hp. apply andb_true_iff in Hp. destruct Hp as [Ht Hp].
    destruct (csl_plain (ss st) tk Ht Hi) as (s' & d & E & Hi' & Hd).
    cbn [app]. rewrite (PG_noconsume _ _ _ Hc).
    assert (Hst : PS st tk = {| ss := s'; consume_ws := false; acc := tk :: acc st;
                                level := level st + d |}).
    { rewrite pstep_eq, E, Hc, terminator_spec.
      unfold plain_tok in Ht. apply andb_true_iff in Ht. destruct Ht as [Ht _].
      apply andb_true_iff in Ht. destruct Ht as [Hs Hg].
      apply negb_true_iff in Hs. apply negb_true_iff in Hg. rewrite Hs, Hg, andb_false_r.
      reflexivity. }
    rewrite Hst.
    destruct (IH {| ss := s'; consume_ws := false; acc := tk :: acc st; level := level st + d |}
                 rest Hp Hi' eq_refl) as (st' & E' & Hi'' & Hc' & Hl & Ha).
    exists st'. split; [exact E'|]. split; [exact Hi''|]. split; [exact Hc'|].
    cbn [level acc] in Hl, Ha. cbn [net rev]. split; [lia|].
    rewrite Ha, <- app_assoc. reflexivity.
Qed.

(* the `;` at level <= 0 terminates; whitespace / one-line comments that follow stay *)
Lemma semi_step st :
  consume_ws st = false -> level st <= 0 ->
  consume_ws (PS st semi) = true /\ acc (PS st semi) = semi :: acc st.
Proof.
  intros Hc Hl. rewrite pstep_eq.
  assert (E : change_splitlevel (ss st) (fst semi) (snd semi) = (ss st, 0)) by (apply csl_other; reflexivity).
  rewrite E. cbn [consume_ws acc]. rewrite terminator_spec.
  replace (is_semi semi) with true by reflexivity.
  replace (Z.leb (level st + 0) 0) with true by (symmetry; apply Z.leb_le; lia).
  rewrite orb_true_r. auto.
Qed.

Lemma pstep_acc' st tk : acc (PS st tk) = tk :: acc st.
Proof. rewrite pstep_eq. destruct (change_splitlevel _ _ _). reflexivity. Qed.

Lemma pstep_consume_mono st tk : consume_ws st = true -> consume_ws (PS st tk) = true.
Proof. intros H. rewrite pstep_eq. destruct (change_splitlevel _ _ _). cbn. rewrite H. reflexivity. Qed.

Lemma eos_run : forall e st rest,
  forallb (fun tk => EOS (fst tk)) e = true -> consume_ws st = true ->
  exists st', PG st (e ++ rest) = PG st' rest /\ consume_ws st' = true /\ acc st' = rev e ++ acc st.
Proof.
  induction e as [|tk e IH]; intros st rest He Hc.
  - exists st. auto.
  - cbn [forallb] in He. apply andb_true_iff in He. destruct He as [Ht He].
    cbn [app]. rewrite (PG_eos _ _ _ Ht).
    destruct (IH (PS st tk) rest He (pstep_consume_mono _ _ Hc)) as (st' & E & Hc' & Ha).
    exists st'. split; [exact E|]. split; [exact Hc'|].
    rewrite Ha, pstep_acc'. cbn [rev]. rewrite <- app_assoc. reflexivity.
Qed.

(* ---- units: pieces of a script the splitter returns as exactly one statement --------------------- *)
Definition Unit (u : list tok) : Prop :=
  forallb is_ws_tok u = false /\
  forall rest, exists st', PG PI (u ++ rest) = PG st' rest /\ consume_ws st' = true /\ acc st' = rev u.

Definition starts_non_eos (u : list tok) : Prop :=
  match u with tk :: _ => EOS (fst tk) = false | [] => False end.

Lemma forallb_rev {A} (f : A -> bool) l : forallb f (rev l) = forallb f l.
Proof.
  induction l as [|x l IH]; [reflexivity|]. cbn [rev forallb].
  rewrite forallb_app, IH. cbn [forallb]. rewrite andb_true_r, andb_comm. reflexivity.
Qed.

Lemma units_go : forall us st,
  consume_ws st = true -> forallb is_ws_tok (acc st) = false ->
  Forall Unit us -> Forall starts_non_eos us ->
  PG st (concat us) = rev (acc st) :: us.
Proof.
  induction us as [|u us IH]; intros st Hc Hw HU HS.
  - cbn [concat process_go]. destruct (acc st) as [|a l] eqn:E; [discriminate|].
    rewrite Hw. reflexivity.
  - inversion HU as [|? ? [Hu1 Hu2] HU']; subst. inversion HS as [|? ? Hs HS']; subst.
    cbn [concat]. destruct u as [|tk u']; [contradiction|]. cbn [starts_non_eos] in Hs.
    change ((tk :: u') ++ concat us) with (tk :: (u' ++ concat us)).
    rewrite (PG_yield _ _ _ Hc Hs). f_equal.
    change (tk :: (u' ++ concat us)) with ((tk :: u') ++ concat us).
    destruct (Hu2 (concat us)) as (st' & E & Hc' & Ha).
    rewrite E, IH; auto.
    + rewrite Ha, rev_involutive. reflexivity.
    + rewrite Ha, forallb_rev. exact Hu1.
Qed.

(* a script that is a sequence of units is split into exactly those units *)
Theorem units_split u us :
  Forall Unit (u :: us) -> Forall starts_non_eos us ->
  process reset_sstate change_splitlevel eos_ttypes is_terminator (concat (u :: us)) = u :: us.
Proof.
  intros HU HS. inversion HU as [|? ? [Hu1 Hu2] HU']; subst.
  unfold process. cbn [concat]. destruct (Hu2 (concat us)) as (st' & E & Hc & Ha).
  rewrite E, units_go; auto.
  - rewrite Ha, rev_involutive. reflexivity.
  - rewrite Ha, forallb_rev. exact Hu1.
Qed.

(* a plain statement, its `;`, and the whitespace / one-line comments after it *)
Definition plain_unit (p e : list tok) : list tok := p ++ semi :: e.

Lemma I0_reset : I0 reset_sstate.
Proof. split; reflexivity. Qed.

Theorem plain_is_unit p e :
  forallb plain_tok p = true -> net p = 0 -> forallb (fun tk => EOS (fst tk)) e = true ->
  Unit (plain_unit p e).
Proof.
  intros Hp Hn He. split.
  - unfold plain_unit. rewrite forallb_app. cbn [forallb].
    replace (is_ws_tok semi) with false by reflexivity. rewrite andb_false_r. reflexivity.
  - intros rest. unfold plain_unit. rewrite <- app_assoc.
    destruct (plain_run p PI ((semi :: e) ++ rest) Hp I0_reset eq_refl)
      as (st1 & E1 & Hi1 & Hc1 & Hl1 & Ha1).
    rewrite E1. cbn [app]. rewrite (PG_noconsume _ _ _ Hc1).
    assert (Hl : level st1 <= 0) by (cbn in Hl1; lia).
    destruct (semi_step st1 Hc1 Hl) as [Hc2 Ha2].
    destruct (eos_run e (PS st1 semi) rest He Hc2) as (st3 & E3 & Hc3 & Ha3).
    exists st3. split; [exact E3|]. split; [exact Hc3|].
    rewrite Ha3, Ha2, Ha1. cbn [acc pinit]. rewrite app_nil_r.
    rewrite rev_app_distr. cbn [rev]. rewrite <- !app_assoc. reflexivity.
Qed.

(* ================================================================================================
   C17: CREATE ... BEGIN ... END; bodies
   ================================================================================================ *)
Definition SB (st : sstate) (b : Z) (ic : Z) : Prop :=
  is_create st = true /\ begin_depth st = b /\ case_depth st = ic.

(* keyword spelled w (any case, any keyword sub-type) that is not a GO terminator *)
Definition kwtok (tk : tok) (ws : list (list N)) : bool := kw_among tk ws && negb (is_go tk).

Definition neutral_tok (tk : tok) : bool :=
  negb (is_semi tk) && negb (is_go tk) && negb (is_lparen tk) && negb (is_rparen tk)
  && negb (kw_among tk [w_BEGIN; w_END; w_IF; w_FOR; w_WHILE; w_CASE; w_END_IF; w_END_FOR; w_END_WHILE]).

Ltac split_bools :=
  repeat match goal with
         | H : andb _ _ = true |- _ => apply andb_true_iff in H; destruct H
         | H : negb _ = true |- _ => apply negb_true_iff in H
         | H : orb _ _ = false |- _ => apply orb_false_iff in H; destruct H
         end.

Ltac kill_ifs :=
  repeat match goal with
         | |- context [if ?b then _ else _] => let E := fresh "E" in destruct b eqn:E
         end.

Ltac zify_tests :=
  repeat match goal with
         | H : Z.eqb _ _ = true |- _ => apply Z.eqb_eq in H
         | H : Z.eqb _ _ = false |- _ => apply Z.eqb_neq in H
         | H : Z.gtb _ _ = true |- _ => rewrite Z.gtb_ltb in H; apply Z.ltb_lt in H
         | H : Z.gtb _ _ = false |- _ => rewrite Z.gtb_ltb in H; apply Z.ltb_ge in H
         end.

Ltac bool_contra :=
  cbn [existsb] in *;
  repeat match goal with
         | H : andb _ _ = true |- _ => apply andb_true_iff in H; destruct H
         | H : orb _ _ = true |- _ => apply orb_true_iff in H; destruct H
         | H : orb _ _ = false |- _ => apply orb_false_iff in H; destruct H
         | H : negb _ = true |- _ => apply negb_true_iff in H
         | H : negb _ = false |- _ => apply negb_false_iff in H
         end;
  try congruence; zify_tests; try lia.

(* use `upper v = W` (from a text_eqb hypothesis) to evaluate the remaining tests *)
Ltac know_word H :=
  apply text_eqb_eq in H; rewrite H in *; cbn in *.

Lemma kw_not_paren tk : tin (fst tk) T_Keyword = true -> is_lparen tk = false /\ is_rparen tk = false.
Proof.
  unfold is_lparen, is_rparen. intros H.
  destruct (ttype_eqb (fst tk) T_Punctuation) eqn:E; [|auto].
  apply punct_not_kw in E. unfold T_Keyword in H. congruence.
Qed.

Lemma kw_not_semi tk : tin (fst tk) T_Keyword = true -> is_semi tk = false.
Proof.
  unfold is_semi. intros H. destruct (ttype_eqb (fst tk) T_Punctuation) eqn:E; [|auto].
  apply punct_not_kw in E. unfold T_Keyword in H. congruence.
Qed.

(* generic shape of the keyword lemmas: unfold the chain past the parenthesis / non-keyword tests *)
Ltac enter_kw Hk :=
  let Hl := fresh "Hl" in let Hr := fresh "Hr" in
  destruct (kw_not_paren _ Hk) as [Hl Hr];
  unfold is_lparen, is_rparen, T_Punctuation, T_Keyword in *;
  unfold change_splitlevel; rewrite Hl, Hr, Hk; cbn [negb]; cbv zeta;
  match goal with |- context [join_split space_set (upper (snd ?tk))] => fold (unified (snd tk)) | _ => idtac end.

Lemma csl_neutral st tk b ic :
  neutral_tok tk = true -> 1 <= b -> SB st b ic ->
  exists st', change_splitlevel st (fst tk) (snd tk) = (st', 0) /\ SB st' b ic.
Proof.
  intros Hn Hb (Hc & Hd & Hi). unfold neutral_tok in Hn. split_bools.
  destruct (tin (fst tk) T_Keyword) eqn:Hk.
  2:{ rewrite csl_other by assumption. exists st. unfold SB. auto. }
  unfold kw_among in *. rewrite Hk in *. cbn [andb existsb] in *. split_bools.
  unfold w_BEGIN, w_END, w_IF, w_FOR, w_WHILE, w_CASE, w_END_IF, w_END_FOR, w_END_WHILE in *.
  enter_kw Hk. unfold SB. cbn [existsb].
  repeat match goal with
         | H : text_eqb (unified (snd tk)) ?w = false |- _ => rewrite H; clear H
         end.
  cbn [orb andb].
  assert (Hz : Z.eqb (begin_depth st) 0 = false) by (apply Z.eqb_neq; lia).
  rewrite Hz, ?andb_false_r.
  destruct (ttype_eqb (fst tk) [Keyword; DDL] && text_prefixb [67; 82; 69; 65; 84; 69]%N (unified (snd tk)));
    (eexists; split; [reflexivity|]; cbn; auto).
Qed.

(* a keyword token spelling w: evaluate the chain with `upper v = w` *)
Ltac kw_lemma Hw :=
  unfold kwtok, kw_among in Hw; cbn [existsb] in Hw; split_bools;
  match goal with Hk : tin (fst _) T_Keyword = true |- _ => enter_kw Hk end;
  unfold SB in *.

Lemma csl_begin st tk b ic :
  kwtok tk [w_BEGIN] = true -> SB st b ic ->
  exists st', change_splitlevel st (fst tk) (snd tk) = (st', 1) /\ SB st' (b + 1) ic.
Proof.
  intros Hw (Hc & Hd & Hi). kw_lemma Hw. rewrite orb_false_r in *.
  match goal with H : text_eqb (unified _) w_BEGIN = true |- _ => unfold w_BEGIN in H; know_word H end.
  rewrite ?andb_false_r. cbn. rewrite Hc. eexists; split; [reflexivity|]. cbn. repeat split; auto; lia.
Qed.

Lemma csl_end st tk b :
  kwtok tk [w_END] = true -> 1 <= b -> SB st b 0 ->
  exists st', change_splitlevel st (fst tk) (snd tk) = (st', -1) /\ SB st' (b - 1) 0.
Proof.
  intros Hw Hb (Hc & Hd & Hi). kw_lemma Hw. rewrite orb_false_r in *.
  match goal with H : text_eqb (unified _) w_END = true |- _ => unfold w_END in H; know_word H end.
  rewrite ?andb_false_r. cbn. rewrite Hi. cbn. eexists; split; [reflexivity|]. cbn.
  repeat split; auto. lia.
Qed.

Lemma csl_end_case st tk b ic :
  kwtok tk [w_END] = true -> 1 <= ic -> SB st b ic ->
  exists st', change_splitlevel st (fst tk) (snd tk) = (st', -1) /\ SB st' b (ic - 1).
Proof.
  intros Hw Hic (Hc & Hd & Hi). kw_lemma Hw. rewrite orb_false_r in *.
  match goal with H : text_eqb (unified _) w_END = true |- _ => unfold w_END in H; know_word H end.
  rewrite ?andb_false_r. cbn. rewrite Hi.
  replace (ic =? 0) with false by (symmetry; apply Z.eqb_neq; lia).
  cbn. eexists; split; [reflexivity|]. cbn. repeat split; auto; lia.
Qed.

Lemma csl_case st tk b ic :
  kwtok tk [w_CASE] = true -> 1 <= b -> SB st b ic ->
  exists st', change_splitlevel st (fst tk) (snd tk) = (st', 1) /\ SB st' b (ic + 1).
Proof.
  intros Hw Hb (Hc & Hd & Hi). kw_lemma Hw. rewrite orb_false_r in *.
  match goal with H : text_eqb (unified _) w_CASE = true |- _ => unfold w_CASE in H; know_word H end.
  rewrite ?andb_false_r. cbn. rewrite Hc.
  replace (begin_depth st >? 0) with true by (symmetry; rewrite Z.gtb_ltb; apply Z.ltb_lt; lia).
  cbn. eexists; split; [reflexivity|]. cbn. repeat split; auto; lia.
Qed.

Ltac kw_lemma2 Hw Hk :=
  unfold kwtok, kw_among in Hw; cbn [existsb] in Hw;
  apply andb_true_iff in Hw; destruct Hw as [Hw _];
  apply andb_true_iff in Hw; destruct Hw as [Hk Hw];
  rewrite orb_false_r in Hw; enter_kw Hk; unfold SB in *.

Lemma csl_open st tk b ic :
  kwtok tk [w_IF; w_WHILE; w_FOR] = true -> 1 <= b -> SB st b ic ->
  exists st', change_splitlevel st (fst tk) (snd tk) = (st', 1) /\ SB st' b ic.
Proof.
  intros Hw Hb (Hc & Hd & Hi). kw_lemma2 Hw Hk.
  assert (Hg : (begin_depth st >? 0) = true) by (rewrite Z.gtb_ltb; apply Z.ltb_lt; lia).
  apply orb_true_iff in Hw; destruct Hw as [Hw|Hw]; [|apply orb_true_iff in Hw; destruct Hw as [Hw|Hw]];
    [unfold w_IF in Hw | unfold w_WHILE in Hw | unfold w_FOR in Hw]; know_word Hw;
    rewrite ?andb_false_r; cbn; rewrite Hc, Hg; cbn;
    (eexists; split; [reflexivity|]; cbn; repeat split; auto; lia).
Qed.

Lemma csl_close st tk b ic :
  kwtok tk [w_END_IF; w_END_WHILE; w_END_FOR] = true -> SB st b ic ->
  exists st', change_splitlevel st (fst tk) (snd tk) = (st', -1) /\ SB st' b ic.
Proof.
  intros Hw (Hc & Hd & Hi). kw_lemma2 Hw Hk.
  apply orb_true_iff in Hw; destruct Hw as [Hw|Hw]; [|apply orb_true_iff in Hw; destruct Hw as [Hw|Hw]];
    [unfold w_END_IF in Hw | unfold w_END_WHILE in Hw | unfold w_END_FOR in Hw]; know_word Hw;
    rewrite ?andb_false_r; cbn;
    (eexists; split; [reflexivity|]; cbn; repeat split; auto; lia).
Qed.

(* ---- one step of the loop when no terminator fires ------------------------------------------- *)
Lemma step_quiet st tk s' d :
  consume_ws st = false -> change_splitlevel (ss st) (fst tk) (snd tk) = (s', d) ->
  is_go tk = false -> (is_semi tk = false \/ 1 <= level st + d) ->
  PS st tk = {| ss := s'; consume_ws := false; acc := tk :: acc st; level := level st + d |}.
Proof.
  intros Hc E Hg Hs. rewrite pstep_eq, E, Hc, terminator_spec, Hg, orb_false_r.
  destruct Hs as [Hs|Hs].
  - rewrite Hs, andb_false_r. reflexivity.
  - replace (Z.leb (level st + d) 0) with false by (symmetry; apply Z.leb_gt; lia). reflexivity.
Qed.

(* the body language: a bracket language over ( ), BEGIN END, IF/WHILE/FOR-openers with their END
   forms, CASE END (NESTED to any depth since the fix of finding F39: the splitter counts the open CASE expressions),
   neutral tokens and semicolons.  [full = false]: the inside of a CASE expression, where BEGIN/END must not occur. *)
Inductive Blk : bool -> list tok -> Prop :=
| B_nil f : Blk f []
| B_tok f tk r : neutral_tok tk = true -> Blk f r -> Blk f (tk :: r)
| B_semi f tk r : is_semi tk = true -> Blk f r -> Blk f (tk :: r)
| B_paren f o c q r :
    is_lparen o = true -> is_rparen c = true -> Blk f q -> Blk f r -> Blk f (o :: q ++ c :: r)
| B_loop f o c q r :
    kwtok o [w_IF; w_WHILE; w_FOR] = true -> kwtok c [w_END_IF; w_END_WHILE; w_END_FOR] = true ->
    Blk f q -> Blk f r -> Blk f (o :: q ++ c :: r)
| B_begin o c q r :
    kwtok o [w_BEGIN] = true -> kwtok c [w_END] = true ->
    Blk true q -> Blk true r -> Blk true (o :: q ++ c :: r)
| B_case f o c q r :
    kwtok o [w_CASE] = true -> kwtok c [w_END] = true ->
    Blk false q -> Blk f r -> Blk f (o :: q ++ c :: r).

Lemma kwtok_go tk ws : kwtok tk ws = true -> is_go tk = false.
Proof. unfold kwtok. intros H. apply andb_true_iff in H. destruct H as [_ H]. apply negb_true_iff, H. Qed.

Lemma kwtok_not_semi tk ws : kwtok tk ws = true -> is_semi tk = false.
Proof.
  unfold kwtok, kw_among. intros H. apply andb_true_iff in H. destruct H as [H _].
  apply andb_true_iff in H. destruct H as [H _]. apply kw_not_semi, H.
Qed.

Lemma semi_not_paren tk : is_semi tk = true -> is_lparen tk = false /\ is_rparen tk = false.
Proof.
  unfold is_semi, is_lparen, is_rparen. intros H. apply andb_true_iff in H. destruct H as [_ H].
  apply text_eqb_eq in H. rewrite H. rewrite !andb_false_r. auto.
Qed.

Lemma semi_not_kw tk : is_semi tk = true -> tin (fst tk) T_Keyword = false.
Proof. unfold is_semi. intros H. apply andb_true_iff in H. destruct H as [H _]. apply punct_not_kw, H. Qed.

Lemma semi_not_go tk : is_semi tk = true -> is_go tk = false.
Proof.
  unfold is_semi, is_go. intros H. apply andb_true_iff in H. destruct H as [H _].
  apply ttype_eqb_eq in H. rewrite H. reflexivity.
Qed.

Lemma lparen_not_go tk : is_lparen tk = true -> is_go tk = false /\ is_semi tk = false.
Proof.
  unfold is_lparen, is_go, is_semi. intros H. apply andb_true_iff in H. destruct H as [H1 H2].
  apply ttype_eqb_eq in H1. apply text_eqb_eq in H2. rewrite H1, H2. auto.
Qed.

Lemma rparen_not_go tk : is_rparen tk = true -> is_go tk = false /\ is_semi tk = false.
Proof.
  unfold is_rparen, is_go, is_semi. intros H. apply andb_true_iff in H. destruct H as [H1 H2].
  apply ttype_eqb_eq in H1. apply text_eqb_eq in H2. rewrite H1, H2. auto.
Qed.

Record BodySt (st : pstate) (b L : Z) (ic : Z) : Prop :=
  { bs_s : SB (ss st) b ic; bs_l : level st = L; bs_c : consume_ws st = false }.

(* processing a block from inside an open BEGIN (b >= 1, level >= 1) never terminates a statement
   and returns to the same depth, level and flags *)
Lemma mk_body s' c' a' l' b L ic :
  SB s' b ic -> l' = L -> c' = false ->
  BodySt {| ss := s'; consume_ws := c'; acc := a'; level := l' |} b L ic.
Proof. intros H1 H2 H3. constructor; assumption. Qed.

(* apply the induction hypothesis at the state the goal is currently in *)
Ltac ih_here IH rest b L ic :=
  match goal with
  | |- context [PG ?s (_ ++ rest)] => destruct (IH s rest b L ic) as (?st' & ?E' & ?HB' & ?Ha')
  end.

Lemma blk_run : forall f q, Blk f q ->
  forall st rest b L ic, (f = true -> ic = 0) -> 0 <= ic -> 1 <= b -> 1 <= L -> BodySt st b L ic ->
  exists st', PG st (q ++ rest) = PG st' rest /\ BodySt st' b L ic /\ acc st' = rev q ++ acc st.
Proof.
  induction 1 as [f | f tk r Hn _ IH | f tk r Hs _ IH
                 | f o c q r Ho Hc _ IHq _ IHr | f o c q r Ho Hc _ IHq _ IHr
                 | o c q r Ho Hc _ IHq _ IHr | f o c q r Ho Hc _ IHq _ IHr];
    intros st rest b L ic Hf Hic Hb HL [HS Hl Hcw].
  - exists st. split; [reflexivity|]. split; [constructor; auto|reflexivity].
  - (* neutral token *)
    destruct (csl_neutral _ _ _ _ Hn Hb HS) as (s' & E & HS').
    assert (Hg : is_go tk = false /\ is_semi tk = false).
    { unfold neutral_tok in Hn. split_bools. auto. }
    cbn [app]. rewrite (PG_noconsume _ _ _ Hcw).
    rewrite (step_quiet _ _ _ _ Hcw E (proj1 Hg) (or_introl (proj2 Hg))).
    ih_here IH rest b L ic; [exact Hf|exact Hic|exact Hb|exact HL|apply mk_body; [exact HS'|lia|reflexivity]|].
    exists st'. split; [exact E'|]. split; [exact HB'|].
    rewrite Ha'. cbn [acc rev]. rewrite <- app_assoc. reflexivity.
  - (* semicolon at level >= 1 *)
    destruct (semi_not_paren _ Hs) as [Hl1 Hl2].
    assert (E : change_splitlevel (ss st) (fst tk) (snd tk) = (ss st, 0))
      by (apply csl_other; auto using semi_not_kw).
    cbn [app]. rewrite (PG_noconsume _ _ _ Hcw).
    rewrite (step_quiet _ _ _ _ Hcw E (semi_not_go _ Hs)) by (right; lia).
    ih_here IH rest b L ic; [exact Hf|exact Hic|exact Hb|exact HL|apply mk_body; [exact HS|lia|reflexivity]|].
    exists st'. split; [exact E'|]. split; [exact HB'|].
    rewrite Ha'. cbn [acc rev]. rewrite <- app_assoc. reflexivity.
  - (* parentheses *)
    destruct (lparen_not_go _ Ho) as [Hg1 Hs1]. destruct (rparen_not_go _ Hc) as [Hg2 Hs2].
    cbn [app]. rewrite (PG_noconsume _ _ _ Hcw).
    rewrite (step_quiet _ _ _ _ Hcw (csl_lparen _ _ Ho) Hg1 (or_introl Hs1)).
    rewrite <- app_assoc. cbn [app].
    ih_here IHq (c :: r ++ rest) b (L + 1) ic;
      [exact Hf|exact Hic|exact Hb|lia|apply mk_body; [exact HS|lia|reflexivity]|].
    destruct HB' as [HS1 Hl1 Hc1].
    rewrite E'. cbn [app]. rewrite (PG_noconsume _ _ _ Hc1).
    assert (Hnl : is_lparen c = false).
    { destruct (is_lparen c) eqn:X; [|reflexivity]. apply lparen_not_rparen in X. congruence. }
    rewrite (step_quiet _ _ _ _ Hc1 (csl_rparen _ _ Hnl Hc) Hg2 (or_introl Hs2)).
    ih_here IHr rest b L ic; [exact Hf|exact Hic|exact Hb|exact HL|apply mk_body; [exact HS1|lia|reflexivity]|].
    exists st'0. split; [exact E'0|]. split; [exact HB'|].
    rewrite Ha'0. cbn [acc]. rewrite Ha'. cbn [acc rev].
    rewrite rev_app_distr. cbn [rev]. rewrite <- !app_assoc. reflexivity.
  - (* IF / WHILE / FOR ... END IF / END WHILE / END FOR *)
    destruct (csl_open _ _ _ _ Ho Hb HS) as (s1 & Eo & HSo).
    cbn [app]. rewrite (PG_noconsume _ _ _ Hcw).
    rewrite (step_quiet _ _ _ _ Hcw Eo (kwtok_go _ _ Ho) (or_introl (kwtok_not_semi _ _ Ho))).
    rewrite <- app_assoc. cbn [app].
    ih_here IHq (c :: r ++ rest) b (L + 1) ic;
      [exact Hf|exact Hic|exact Hb|lia|apply mk_body; [exact HSo|lia|reflexivity]|].
    destruct HB' as [HS1 Hl1 Hc1].
    rewrite E'. cbn [app]. rewrite (PG_noconsume _ _ _ Hc1).
    destruct (csl_close _ _ _ _ Hc HS1) as (s2 & Ec & HSc).
    rewrite (step_quiet _ _ _ _ Hc1 Ec (kwtok_go _ _ Hc) (or_introl (kwtok_not_semi _ _ Hc))).
    ih_here IHr rest b L ic; [exact Hf|exact Hic|exact Hb|exact HL|apply mk_body; [exact HSc|lia|reflexivity]|].
    exists st'0. split; [exact E'0|]. split; [exact HB'|].
    rewrite Ha'0. cbn [acc]. rewrite Ha'. cbn [acc rev].
    rewrite rev_app_distr. cbn [rev]. rewrite <- !app_assoc. reflexivity.
  - (* BEGIN ... END *)
    assert (ic = 0) by auto. subst ic.
    destruct (csl_begin _ _ _ _ Ho HS) as (s1 & Eo & HSo).
    cbn [app]. rewrite (PG_noconsume _ _ _ Hcw).
    rewrite (step_quiet _ _ _ _ Hcw Eo (kwtok_go _ _ Ho) (or_introl (kwtok_not_semi _ _ Ho))).
    rewrite <- app_assoc. cbn [app].
    ih_here IHq (c :: r ++ rest) (b + 1) (L + 1) 0;
      [reflexivity|lia|lia|lia|apply mk_body; [exact HSo|lia|reflexivity]|].
    destruct HB' as [HS1 Hl1 Hc1].
    rewrite E'. cbn [app]. rewrite (PG_noconsume _ _ _ Hc1).
    destruct (csl_end _ _ (b + 1) Hc ltac:(lia) HS1) as (s2 & Ec & HSc).
    rewrite (step_quiet _ _ _ _ Hc1 Ec (kwtok_go _ _ Hc) (or_introl (kwtok_not_semi _ _ Hc))).
    replace (b + 1 - 1) with b in HSc by lia.
    ih_here IHr rest b L 0; [reflexivity|lia|exact Hb|exact HL|apply mk_body; [exact HSc|lia|reflexivity]|].
    exists st'0. split; [exact E'0|]. split; [exact HB'|].
    rewrite Ha'0. cbn [acc]. rewrite Ha'. cbn [acc rev].
    rewrite rev_app_distr. cbn [rev]. rewrite <- !app_assoc. reflexivity.
  - (* CASE ... END, nested to any depth: the counter goes up and comes back *)
    destruct (csl_case _ _ _ _ Ho Hb HS) as (s1 & Eo & HSo).
    cbn [app]. rewrite (PG_noconsume _ _ _ Hcw).
    rewrite (step_quiet _ _ _ _ Hcw Eo (kwtok_go _ _ Ho) (or_introl (kwtok_not_semi _ _ Ho))).
    rewrite <- app_assoc. cbn [app].
    ih_here IHq (c :: r ++ rest) b (L + 1) (ic + 1);
      [discriminate|lia|exact Hb|lia|apply mk_body; [exact HSo|lia|reflexivity]|].
    destruct HB' as [HS1 Hl1 Hc1].
    rewrite E'. cbn [app]. rewrite (PG_noconsume _ _ _ Hc1).
    destruct (csl_end_case _ _ _ (ic + 1) Hc ltac:(lia) HS1) as (s2 & Ec & HSc).
    rewrite (step_quiet _ _ _ _ Hc1 Ec (kwtok_go _ _ Hc) (or_introl (kwtok_not_semi _ _ Hc))).
    replace (ic + 1 - 1) with ic in HSc by lia.
    ih_here IHr rest b L ic; [exact Hf|exact Hic|exact Hb|exact HL|apply mk_body; [exact HSc|lia|reflexivity]|].
    exists st'0. split; [exact E'0|]. split; [exact HB'|].
    rewrite Ha'0. cbn [acc]. rewrite Ha'. cbn [acc rev].
    rewrite rev_app_distr. cbn [rev]. rewrite <- !app_assoc. reflexivity.
Qed.
