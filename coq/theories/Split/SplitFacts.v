(* The splitter partitions its input stream, whatever the level function, the terminator test and
   the end-of-statement token types are: every token lands in exactly one statement, in order;
   only a final all-whitespace statement is dropped. *)
From SqlModel Require Import Base PyStr SplitDefs Splitter.

Section Facts.
Variable reset : sstate.
Variable change : sstate -> ttype -> text -> sstate * Z.
Variable eos : list ttype.
Variable terminator : Z -> ttype -> text -> bool.

Notation process_go := (process_go reset change eos terminator).
Notation dropped_go := (dropped_go reset change eos terminator).
Notation pstep := (pstep change terminator).
Notation pinit := (pinit reset).

Lemma pstep_acc st tk : acc (pstep st tk) = tk :: acc st.
Proof. unfold pstep. destruct tk as [ty v]. destruct (change (ss st) ty v). reflexivity. Qed.

Lemma partition_go : forall stream st,
  concat (process_go st stream) ++ dropped_go st stream = rev (acc st) ++ stream.
Proof.
  induction stream as [|tk rest IH]; intros st.
  - cbn [process_go dropped_go]. rewrite app_nil_r.
    destruct (acc st) as [|a l] eqn:E; [reflexivity|].
    destruct (forallb is_ws_tok (a :: l)); simpl; rewrite ?app_nil_r; reflexivity.
  - cbn [process_go dropped_go].
    destruct (consume_ws st && negb (in_eos eos (fst tk))).
    + cbn [concat]. rewrite <- app_assoc, IH, pstep_acc. reflexivity.
    + rewrite IH, pstep_acc. cbn [rev]. rewrite <- app_assoc. reflexivity.
Qed.

Theorem process_partition stream :
  concat (process reset change eos terminator stream) ++ dropped reset change eos terminator stream
  = stream.
Proof. unfold process, dropped. rewrite partition_go. reflexivity. Qed.

Lemma dropped_go_ws : forall stream st,
  Forall (fun tk => is_ws_tok tk = true) (dropped_go st stream).
Proof.
  induction stream as [|tk rest IH]; intros st.
  - cbn [dropped_go]. destruct (acc st) as [|a l] eqn:E; [constructor|].
    destruct (forallb is_ws_tok (a :: l)) eqn:F; [|constructor].
    apply Forall_forall. intros x Hx. apply in_rev in Hx.
    rewrite forallb_forall in F. auto.
  - cbn [dropped_go]. destruct (consume_ws st && negb (in_eos eos (fst tk))); apply IH.
Qed.

Theorem dropped_ws stream :
  Forall (fun tk => is_ws_tok tk = true) (dropped reset change eos terminator stream).
Proof. apply dropped_go_ws. Qed.

(* every yielded statement is non-empty and contains a non-whitespace token, provided the
   accumulated prefix does when a split happens: a split happens only after a terminator token *)
Lemma process_go_nonempty : forall stream st,
  (consume_ws st = true -> acc st <> []) ->
  Forall (fun s => s <> []) (process_go st stream).
Proof.
  induction stream as [|tk rest IH]; intros st Hc.
  - cbn [process_go]. destruct (acc st) as [|a l] eqn:E; [constructor|].
    destruct (forallb is_ws_tok (a :: l)); constructor; [|constructor].
    intro H. apply (f_equal (@length _)) in H. rewrite rev_length in H. discriminate.
  - cbn [process_go].
    destruct (consume_ws st && negb (in_eos eos (fst tk))) eqn:G.
    + apply andb_true_iff in G. destruct G as [G _]. constructor.
      * intro H. apply Hc in G. apply G. destruct (acc st); [reflexivity|].
        apply (f_equal (@length _)) in H. rewrite rev_length in H. discriminate.
      * apply IH. intros _. rewrite pstep_acc. discriminate.
    + apply IH. intros _. rewrite pstep_acc. discriminate.
Qed.

Theorem process_nonempty stream :
  Forall (fun s => s <> []) (process reset change eos terminator stream).
Proof. apply process_go_nonempty. simpl. discriminate. Qed.

End Facts.
