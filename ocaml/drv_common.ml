(* Helpers shared by the driver plug-ins (drv_*.ml) + the command registry.
   Line-oriented driver around the extracted model.
   request :  <cmd> <args...>       code points are decimal integers separated by ','
   reply   :  one line *)
open Sqlmodel

let rec pos_of_int i = if i = 1 then XH else if i land 1 = 0 then XO (pos_of_int (i lsr 1)) else XI (pos_of_int (i lsr 1))
let n_of_int i = if i = 0 then N0 else Npos (pos_of_int i)
let rec int_of_pos = function XH -> 1 | XO p -> 2 * int_of_pos p | XI p -> 2 * int_of_pos p + 1
let int_of_n = function N0 -> 0 | Npos p -> int_of_pos p
let rec nat_of_int i = if i <= 0 then O else S (nat_of_int (i - 1))
let rec int_of_nat = function O -> 0 | S n -> 1 + int_of_nat n

let tcomp_name = function
  | Text -> "Text" | Whitespace -> "Whitespace" | Newline -> "Newline" | Error -> "Error"
  | Other -> "Other" | Keyword -> "Keyword" | Name -> "Name" | Literal -> "Literal"
  | String -> "String" | Number -> "Number" | Punctuation -> "Punctuation"
  | Operator -> "Operator" | Comparison -> "Comparison" | Wildcard -> "Wildcard"
  | Comment -> "Comment" | Assignment -> "Assignment" | Generic -> "Generic"
  | Command -> "Command" | DML -> "DML" | DDL -> "DDL" | CTE -> "CTE" | Single -> "Single"
  | Multiline -> "Multiline" | Hint -> "Hint" | Placeholder -> "Placeholder"
  | Builtin -> "Builtin" | Symbol -> "Symbol" | Hexadecimal -> "Hexadecimal" | Float -> "Float"
  | Integer -> "Integer" | Order -> "Order" | TZCast -> "TZCast" | Heading -> "Heading"
  | Subheading -> "Subheading" | Deleted -> "Deleted" | Inserted -> "Inserted"
  | Output -> "Output" | Emph -> "Emph" | Strong -> "Strong" | Prompt -> "Prompt"
  | Traceback -> "Traceback" | Token_ -> "Token" | DCL -> "DCL"

let exn_name = function
  | IndexError -> "IndexError" | ValueError -> "ValueError" | AttributeError -> "AttributeError"
  | TypeError -> "TypeError" | StopIteration -> "StopIteration"
  | UnicodeDecodeError -> "UnicodeDecodeError" | RecursionError -> "RecursionError"
  | SQLParseError -> "SQLParseError" | NotImplementedError -> "NotImplementedError"
  | LookupError -> "LookupError" | Stuck -> "Stuck"

let ttype_str tt = String.concat "." (List.map tcomp_name tt)
let text_str t = String.concat "," (List.map (fun c -> string_of_int (int_of_n c)) t)
let parse_text s =
  if s = "" || s = "-" then [] else List.map (fun x -> n_of_int (int_of_string x)) (String.split_on_char ',' s)
let tok_str (ty, v) = ttype_str ty ^ ":" ^ text_str v

let cls_name = function
  | CStatement -> "Statement" | CIdentifier -> "Identifier" | CIdentifierList -> "IdentifierList"
  | CTypedLiteral -> "TypedLiteral" | CParenthesis -> "Parenthesis"
  | CSquareBrackets -> "SquareBrackets" | CAssignment -> "Assignment" | CIf -> "If"
  | CFor -> "For" | CComparison -> "Comparison" | CComment -> "Comment" | CWhere -> "Where"
  | COver -> "Over" | CHaving -> "Having" | CCase -> "Case" | CFunction -> "Function"
  | CBegin -> "Begin" | COperation -> "Operation" | CValues -> "Values" | CCommand -> "Command"
  | CTokenList -> "TokenList"

let rec node_str buf = function
  | Leaf (ty, v) -> Buffer.add_string buf "L"; Buffer.add_string buf (ttype_str ty);
      Buffer.add_char buf ':'; Buffer.add_string buf (text_str v)
  | Grp (c, cached, kids) -> Buffer.add_string buf "G"; Buffer.add_string buf (cls_name c);
      Buffer.add_char buf ':'; Buffer.add_string buf (text_str cached); Buffer.add_char buf '(';
      List.iteri (fun i k -> if i > 0 then Buffer.add_char buf ';'; node_str buf k) kids;
      Buffer.add_char buf ')'

let nodes_str ns =
  let buf = Buffer.create 1024 in
  List.iteri (fun i n -> if i > 0 then Buffer.add_string buf "||"; node_str buf n) ns;
  Buffer.contents buf

let split_at n l =
  let rec go n acc l = if n = 0 then (List.rev acc, l) else match l with [] -> (List.rev acc, []) | x :: r -> go (n - 1) (x :: acc) r in
  go n [] l

let last_opt l = match List.rev l with [] -> None | x :: _ -> Some x


(* command registry: each drv_*.ml registers its commands at module initialisation *)
let handlers : (string, string list -> string) Hashtbl.t = Hashtbl.create 64
let register name f = Hashtbl.replace handlers name f
let res_str f = function Ok v -> "OK " ^ f v | Err e -> "ERR " ^ exn_name e
