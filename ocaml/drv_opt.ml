(* option commands:
     validate <opts>   ->  format_stack_of: validate_options, then build_filter_stack + serializer
     fstack <opts>     ->  build_filter_stack on the dictionary as given (no validation)
   <opts>  =  '@' (empty) | item(';'item)*      item = <key code points | '-'> '=' <value>
   <value> =  N | T | F | I<hex> | D<hex> (float equal to an int) | R<hex> (non-integral float, floor)
            | P (inf) | M (-inf) | Q (nan) | S<code points | '-'> | O1 | O0 (other object, truthy / falsy)
   <hex>   =  ['-'] hex digits *)
open Sqlmodel
open Drv_common

let pos_of_hex s =
  let acc = ref None in
  String.iter (fun ch ->
    let d = match ch with
      | '0'..'9' -> Char.code ch - 48 | 'a'..'f' -> Char.code ch - 87 | 'A'..'F' -> Char.code ch - 55
      | _ -> failwith "hex" in
    for i = 3 downto 0 do
      let b = (d lsr i) land 1 = 1 in
      acc := (match !acc with
              | None -> if b then Some XH else None
              | Some p -> Some (if b then XI p else XO p))
    done) s;
  !acc

let z_of_hex s =
  let neg = String.length s > 0 && s.[0] = '-' in
  let body = if neg then String.sub s 1 (String.length s - 1) else s in
  match pos_of_hex body with
  | None -> Z0
  | Some p -> if neg then Zneg p else Zpos p

let hex_of_pos p =
  let rec bits = function XH -> [1] | XO q -> 0 :: bits q | XI q -> 1 :: bits q in
  let rec group = function
    | [] -> []
    | a :: b :: c :: d :: r -> (a + 2 * b + 4 * c + 8 * d) :: group r
    | l -> [List.fold_right (fun x acc -> x + 2 * acc) l 0] in
  let ds = List.rev (group (bits p)) in
  String.concat "" (List.map (fun d -> String.make 1 "0123456789abcdef".[d]) ds)

let hex_of_z = function Z0 -> "0" | Zpos p -> hex_of_pos p | Zneg p -> "-" ^ hex_of_pos p

let tail s = String.sub s 1 (String.length s - 1)

let pval_of_string s =
  if s = "" then failwith "value" else
  match s.[0] with
  | 'N' -> PNone | 'T' -> PBool true | 'F' -> PBool false
  | 'I' -> PInt (z_of_hex (tail s)) | 'D' -> PFloatInt (z_of_hex (tail s)) | 'R' -> PFloatFrac (z_of_hex (tail s))
  | 'P' -> PFloatInf false | 'M' -> PFloatInf true | 'Q' -> PFloatNan
  | 'S' -> PStr (parse_text (tail s))
  | 'O' -> POther (tail s = "1")
  | _ -> failwith "value"

let text_enc t = if t = [] then "-" else text_str t

let string_of_pval = function
  | PNone -> "N" | PBool true -> "T" | PBool false -> "F"
  | PInt z -> "I" ^ hex_of_z z | PFloatInt z -> "D" ^ hex_of_z z | PFloatFrac z -> "R" ^ hex_of_z z
  | PFloatInf false -> "P" | PFloatInf true -> "M" | PFloatNan -> "Q"
  | PStr t -> "S" ^ text_enc t
  | POther b -> if b then "O1" else "O0"

let opts_of_string s =
  if s = "@" then [] else
  List.map (fun item ->
    match String.index_opt item '=' with
    | Some i -> (parse_text (String.sub item 0 i), pval_of_string (String.sub item (i + 1) (String.length item - i - 1)))
    | None -> failwith "item") (String.split_on_char ';' s)

let string_of_opts o =
  if o = [] then "@" else String.concat ";" (List.map (fun (k, v) -> text_enc k ^ "=" ^ string_of_pval v) o)

let pyexn_name = function Exn e -> exn_name e | OverflowError -> "OverflowError" | KeyError -> "KeyError"

let filt name args =
  name ^ "(" ^ String.concat "&" (List.map (fun (n, v) -> n ^ "=" ^ string_of_pval v) args) ^ ")"

let string_of_filter = function
  | FKeywordCase c -> filt "KeywordCaseFilter" ["case", c]
  | FIdentifierCase c -> filt "IdentifierCaseFilter" ["case", c]
  | FTruncateString (w, c) -> filt "TruncateStringFilter" ["width", w; "char", c]
  | FSpacesAroundOperators -> filt "SpacesAroundOperatorsFilter" []
  | FStripComments -> filt "StripCommentsFilter" []
  | FStripWhitespace -> filt "StripWhitespaceFilter" []
  | FReindent (w, c, wa, cf, iaf, ic, cp) ->
      filt "ReindentFilter" ["width", w; "char", c; "wrap_after", wa; "comma_first", cf;
                             "indent_after_first", iaf; "indent_columns", ic; "compact", cp]
  | FAlignedIndent c -> filt "AlignedIndentFilter" ["char", c]
  | FRightMargin w -> filt "RightMarginFilter" ["width", w]
  | FOutputPHP v -> filt "OutputPHPFilter" ["varname", v]
  | FOutputPython v -> filt "OutputPythonFilter" ["varname", v]
  | FSerializerUnicode -> filt "SerializerUnicode" []
  | FStripTrailingSemicolon -> filt "StripTrailingSemicolonFilter" []

let string_of_stack st =
  let l fs = "[" ^ String.concat "," (List.map string_of_filter fs) ^ "]" in
  "pre=" ^ l st.fs_pre ^ ";grouping=" ^ (if st.fs_grouping then "true" else "false") ^
  ";stmt=" ^ l st.fs_stmt ^ ";post=" ^ l st.fs_post

let () =
  register "validate" (function
    | [o] ->
        let o = opts_of_string o in
        (match validate_options o with
         | OErr e -> "ERR " ^ pyexn_name e
         | OOk o' ->
             let stack = match format_stack_of o with
               | OOk (_, st) -> string_of_stack st
               | OErr e -> "ERR " ^ pyexn_name e in
             "OK " ^ string_of_opts o' ^ " | " ^ stack ^ " | valid=" ^ (if validb o' then "true" else "false"))
    | _ -> "BAD");
  register "fstack" (function
    | [o] ->
        (match build_filter_stack empty_stack (opts_of_string o) with
         | OOk st -> "OK " ^ string_of_stack st
         | OErr e -> "ERR " ^ pyexn_name e)
    | _ -> "BAD")
