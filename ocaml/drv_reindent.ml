(* reindent slice: reindent <opts> <text> | reindent_tree <opts> <text> | stripws_tree <text>
   opts = width,tabs,wrap_after,comma_first,indent_after_first,indent_columns,compact   (ints, 0/1) *)
open Sqlmodel
open Drv_common

let z_of_int i = if i = 0 then Z0 else if i > 0 then Zpos (pos_of_int i) else Zneg (pos_of_int (-i))

let parse_opts s =
  match List.map int_of_string (String.split_on_char ',' s) with
  | [w; tab; wrap; cf; af; cols; compact] ->
      { o_width = z_of_int w; o_tab = (tab <> 0); o_wrap = z_of_int wrap; o_comma_first = (cf <> 0);
        o_after_first = (af <> 0); o_columns = (cols <> 0); o_compact = (compact <> 0) }
  | _ -> failwith "opts"

let () =
  register "reindent" (function
    | [o; t] -> res_str text_str (cur_reindent (parse_opts o) (parse_text t))
    | _ -> "BAD");
  register "reindent_tree" (function
    | [o; t] -> res_str nodes_str (cur_reindent_trees (parse_opts o) (parse_text t))
    | _ -> "BAD");
  register "stripws_tree" (function
    | [t] -> res_str nodes_str (cur_stripws_trees (parse_text t))
    | _ -> "BAD")

(* rxsafe <text>: rx_safe of every grouped + whitespace-stripped statement (statistics) *)
let () =
  register "rxsafe" (function
    | [t] -> res_str (fun l -> String.concat "," (List.map (fun b -> if b then "1" else "0") l))
               (cur_rxsafe (parse_text t))
    | _ -> "BAD")
