(* core commands: lex, splitstream, parse, rmatch *)
open Sqlmodel
open Drv_common

let () =
  register "lex" (function
    | [t] -> res_str (fun toks -> String.concat "|" (List.map tok_str toks)) (cur_lex (parse_text t))
    | _ -> "BAD");
  register "splitstream" (function
    | [t] -> res_str (fun stmts -> String.concat "||" (List.map (fun st -> String.concat "|" (List.map tok_str st)) stmts))
               (cur_split_stream (parse_text t))
    | _ -> "BAD");
  register "parse" (function
    | [k; t] ->
        let r = if k = "all" then cur_parse (parse_text t) else cur_parse_upto (nat_of_int (int_of_string k)) (parse_text t) in
        res_str nodes_str r
    | _ -> "BAD");
  register "rmatch" (function
    | [i; pos; t] ->
        let txt = parse_text t in
        let (before, after) = split_at (int_of_string pos) txt in
        (match cur_rmatch (nat_of_int (int_of_string i)) { prev = last_opt before; rest = after } with
         | Some k -> "OK " ^ string_of_int (int_of_nat k)
         | None -> "OK None")
    | _ -> "BAD")
