(* C19, command line: 
     cliargs <argv...>                      -> OK <namespace dump> | EXIT <code>
     cliopts <argv...>                      -> OK <validated options dump> | EXIT <code> | RAISE <exception>
     climain <stdin> <fs> <argv...>         -> <status> err=<which _error> out=<text> file=<none | path=bytes>
   every <argv> item, path and text is a list of code points (decimal, ','; '-' = empty)
   <fs> = '@' | item(';'item)*   item = r<path>=<bytes>   a readable file
                                        u<path>           a path that cannot be opened for writing
                                        w<path>           a path that can
          a path in neither list can be opened for writing iff it is non-empty and contains no '/'
   `format` is instantiated by a marker function: the dump of the options, '|', the text with U+00FF replaced
   by U+0178 (so that a Latin-1 result can be un-encodable); a text containing U+0007 raises TypeError. *)
open Sqlmodel
open Drv_common

let hex_of_pos p =
  let rec bits = function XH -> [1] | XO q -> 0 :: bits q | XI q -> 1 :: bits q in
  let rec group = function
    | [] -> []
    | a :: b :: c :: d :: r -> (a + 2 * b + 4 * c + 8 * d) :: group r
    | l -> [List.fold_right (fun x acc -> x + 2 * acc) l 0] in
  let ds = List.rev (group (bits p)) in
  String.concat "" (List.map (fun d -> String.make 1 "0123456789abcdef".[d]) ds)

let hex_of_z = function Z0 -> "0" | Zpos p -> hex_of_pos p | Zneg p -> "-" ^ hex_of_pos p

let text_enc t = if t = [] then "-" else text_str t

let string_of_pval = function
  | PNone -> "N" | PBool true -> "T" | PBool false -> "F"
  | PInt z -> "I" ^ hex_of_z z | PFloatInt z -> "D" ^ hex_of_z z | PFloatFrac z -> "R" ^ hex_of_z z
  | PFloatInf false -> "P" | PFloatInf true -> "M" | PFloatNan -> "Q"
  | PStr t -> "S" ^ text_enc t
  | POther b -> if b then "O1" else "O0"

let string_of_opts o =
  if o = [] then "@" else String.concat ";" (List.map (fun (k, v) -> text_enc k ^ "=" ^ string_of_pval v) o)

let pyexn_name = function Exn e -> exn_name e | OverflowError -> "OverflowError" | KeyError -> "KeyError"
let cexn_name = function XPy e -> pyexn_name e | XUnicodeEncodeError -> "UnicodeEncodeError"

let cres_str f = function
  | COk v -> "OK " ^ f v
  | CExit c -> "EXIT " ^ string_of_int (int_of_n c)
  | CRaise e -> "RAISE " ^ cexn_name e

let text_of_ascii s = List.init (String.length s) (fun i -> n_of_int (Char.code s.[i]))

let marker data opts =
  if List.exists (fun c -> int_of_n c = 7) data then Err TypeError
  else Ok (text_of_ascii (string_of_opts opts) @ [n_of_int 124]
           @ List.map (fun c -> if int_of_n c = 255 then n_of_int 376 else c) data)

let parse_fs s =
  let reads = ref [] and unw = ref [] and wr = ref [] in
  if s <> "@" then
    List.iter (fun item ->
      let body = String.sub item 1 (String.length item - 1) in
      match item.[0] with
      | 'r' -> (match String.index_opt body '=' with
                | Some i -> reads := (parse_text (String.sub body 0 i),
                                      parse_text (String.sub body (i + 1) (String.length body - i - 1))) :: !reads
                | None -> failwith "fs")
      | 'u' -> unw := parse_text body :: !unw
      | 'w' -> wr := parse_text body :: !wr
      | _ -> failwith "fs") (String.split_on_char ';' s);
  let fs_read p = List.assoc_opt p !reads in
  let fs_can_write p =
    if List.mem p !wr then true
    else if List.mem p !unw then false
    else p <> [] && not (List.exists (fun c -> int_of_n c = 47) p) in
  (fs_read, fs_can_write)

let status_str = function
  | SReturn c -> "RET " ^ string_of_int (int_of_n c)
  | SExit c -> "EXIT " ^ string_of_int (int_of_n c)
  | SRaise e -> "RAISE " ^ cexn_name e

let err_str = function
  | ENone -> "none" | EReadFailed -> "read" | EOpenFailed -> "open" | EInvalidOptions -> "options"

let () =
  register "cliargs" (fun argv -> cres_str string_of_opts (cli_parse (List.map parse_text argv)));
  register "cliopts" (fun argv -> cres_str string_of_opts (cli_options (List.map parse_text argv)));
  register "climain" (function
    | stdin :: fs :: argv ->
        let (fs_read, fs_can_write) = parse_fs fs in
        let r = cli_main (fun _ -> None) marker fs_read fs_can_write (parse_text stdin) (List.map parse_text argv) in
        status_str r.cr_status ^ " err=" ^ err_str r.cr_err ^ " out=" ^ text_enc r.cr_stdout ^ " file=" ^
        (match r.cr_outfile with None -> "none" | Some (p, bs) -> text_enc p ^ "=" ^ text_enc bs)
    | _ -> "BAD")
