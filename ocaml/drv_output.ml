(* output_format slice:
   outfmt <python|php> <text>                       final string of format(text, output_format=fmt)
   fmtall <python|php|-> <kwcase|-> <idcase|-> <width:char|-> <sc 0/1> <sw 0/1> <reindent opts|-> <text>
        final string of format(text, **options);  reindent opts as in drv_reindent.ml:
        width,tabs,wrap_after,comma_first,indent_after_first,indent_columns,compact
   hasnl <text>                                     len(text.strip().splitlines()) > 1
   splitlines <text>                                text.splitlines()   (lines separated by '|')
   pydec <text> / phpdec <text>                     the decoders of Filters/Output.v (OK cps | OK None) *)
open Sqlmodel
open Drv_common

let z_of_int i = if i = 0 then Z0 else if i > 0 then Zpos (pos_of_int i) else Zneg (pos_of_int (- i))

let fmt_of = function
  | "python" -> Some OPython | "php" -> Some OPhp | "-" -> None | s -> failwith ("fmt " ^ s)

let conv_of = function
  | "upper" -> Some CUpper | "lower" -> Some CLower | "capitalize" -> Some CCapitalize
  | "-" -> None | s -> failwith ("conv " ^ s)

let trunc_of s =
  if s = "-" then None else
  match String.index_opt s ':' with
  | Some i -> Some (z_of_int (int_of_string (String.sub s 0 i)),
                    parse_text (String.sub s (i + 1) (String.length s - i - 1)))
  | None -> failwith "trunc"

let ropts_of s =
  if s = "-" then None else
  match List.map int_of_string (String.split_on_char ',' s) with
  | [w; tab; wrap; cf; af; cols; compact] ->
      Some { o_width = z_of_int w; o_tab = (tab <> 0); o_wrap = z_of_int wrap; o_comma_first = (cf <> 0);
             o_after_first = (af <> 0); o_columns = (cols <> 0); o_compact = (compact <> 0) }
  | _ -> failwith "ropts"

let out_text t = if t = [] then "-" else text_str t

let () =
  register "outfmt" (function
    | [f; t] ->
        (match fmt_of f with
         | Some fm -> res_str out_text (cur_format_out fm (parse_text t))
         | None -> "BAD")
    | _ -> "BAD");
  register "fmtall" (function
    | [f; kw; idc; tr; sc; sw; ri; t] ->
        let o = { f_kw = conv_of kw; f_idc = conv_of idc; f_trunc = trunc_of tr; f_sc = (sc <> "0");
                  f_sw = (sw <> "0"); f_ri = ropts_of ri; f_out = fmt_of f } in
        res_str out_text (cur_format o (parse_text t))
    | _ -> "BAD");
  register "hasnl" (function
    | [t] -> if has_nl_text (parse_text t) then "OK 1" else "OK 0"
    | _ -> "BAD");
  register "splitlines" (function
    | [t] -> "OK " ^ String.concat "|" (List.map out_text (splitlines (parse_text t)))
    | _ -> "BAD");
  register "pydec" (function
    | [t] -> (match pydec false O (parse_text t) [] with Some r -> "OK " ^ out_text r | None -> "OK None")
    | _ -> "BAD");
  register "phpdec" (function
    | [t] -> (match phpdec false (parse_text t) [] with Some r -> "OK " ^ out_text r | None -> "OK None")
    | _ -> "BAD")
