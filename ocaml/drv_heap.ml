(* heapops <k|all> <stmt index> <text> <ops>
   parse the text with the model (first k passes or all), allocate statement <stmt index> on a fresh object heap
   (HeapDefs.of_node), run the operations, reply
       OK <result of op 1>|<result of op 2>|... # <dump>
   dump: for every object in pre-order from the root  <path>=<kind>^<path of the object the parent field names>
   ops are separated by '/', their fields by ':'; paths are r, r.0, r.0.2 ...  *)
open Sqlmodel
open Drv_common

let z_of_int i = if i = 0 then Z0 else if i > 0 then Zpos (pos_of_int i) else Zneg (pos_of_int (- i))
let int_of_z = function Z0 -> 0 | Zpos p -> int_of_pos p | Zneg p -> - (int_of_pos p)

let cls_of_name = function
  | "Statement" -> CStatement | "Identifier" -> CIdentifier | "IdentifierList" -> CIdentifierList
  | "TypedLiteral" -> CTypedLiteral | "Parenthesis" -> CParenthesis | "SquareBrackets" -> CSquareBrackets
  | "Assignment" -> CAssignment | "If" -> CIf | "For" -> CFor | "Comparison" -> CComparison
  | "Comment" -> CComment | "Where" -> CWhere | "Over" -> COver | "Having" -> CHaving | "Case" -> CCase
  | "Function" -> CFunction | "Begin" -> CBegin | "Operation" -> COperation | "Values" -> CValues
  | "Command" -> CCommand | "TokenList" -> CTokenList | s -> failwith ("class " ^ s)

let pstr p = String.concat "." ("r" :: List.rev_map string_of_int p)   (* p is reversed *)

let kids_of h i = match hget h i with
  | Some o -> (match o.okind_of with KGrp (_, _, kids) -> Some kids | KLeaf _ -> None)
  | None -> None

(* identity -> path of the first occurrence in pre-order; a node that is on the current descent is not entered again *)
let index_paths h root =
  let tbl = Hashtbl.create 64 in
  let rec go i p stack =
    if List.mem i stack then () else begin
      if not (Hashtbl.mem tbl i) then Hashtbl.add tbl i (pstr p);
      match kids_of h i with
      | Some kids -> List.iteri (fun k c -> go c (k :: p) (i :: stack)) kids
      | None -> ()
    end in
  go root [] []; tbl

let path_of h root i = match Hashtbl.find_opt (index_paths h root) i with Some p -> p | None -> "DANGLING"

let dump h root =
  let tbl = index_paths h root in
  let buf = Buffer.create 1024 in
  let first = ref true in
  let rec go i p stack =
    if not !first then Buffer.add_char buf ';'; first := false;
    Buffer.add_string buf (pstr p); Buffer.add_char buf '=';
    if List.mem i stack then Buffer.add_string buf "CYCLE" else
    match hget h i with
    | None -> Buffer.add_string buf "MISSING"
    | Some o ->
        (match o.okind_of with
         | KLeaf (ty, v) -> Buffer.add_string buf ("L" ^ ttype_str ty ^ ":" ^ text_str v)
         | KGrp (c, cv, _) -> Buffer.add_string buf ("G" ^ cls_name c ^ ":" ^ text_str cv));
        Buffer.add_char buf '^';
        (match o.oparent with
         | None -> Buffer.add_string buf "None"
         | Some q ->
             (match Hashtbl.find_opt tbl q with
              | None -> Buffer.add_string buf "DANGLING"
              | Some qp ->
                  let contains = match kids_of h q with Some ks -> List.mem i ks | None -> false in
                  Buffer.add_string buf (if contains then qp else "DANGLING:" ^ qp)));
        (match o.okind_of with
         | KGrp (_, _, kids) -> List.iteri (fun k c -> go c (k :: p) (i :: stack)) kids
         | KLeaf _ -> ())
  in
  go root [] []; Buffer.contents buf

(* resolve a path; None = BADPATH *)
let resolve h root path =
  match String.split_on_char '.' path with
  | "r" :: idxs ->
      let rec go i = function
        | [] -> Some i
        | k :: r ->
            (match kids_of h i with
             | Some kids -> let k = int_of_string k in
                 if k >= 0 && k < List.length kids then go (List.nth kids k) r else None
             | None -> None) in
      go root idxs
  | _ -> None

let bool_of s = (s = "1")
let pybool b = if b then "True" else "False"
let err e = "!" ^ exn_name e

let run_op h root op =
  (* returns (heap, result string, stop) *)
  let f = String.split_on_char ':' op in
  let with1 p k = match resolve h root p with None -> (h, "BADPATH", false) | Some i -> k i in
  let q s = (h, s, false) in
  let tokres = function
    | Ok None -> "None"
    | Ok (Some (i, t)) -> string_of_int (int_of_z i) ^ "," ^ path_of h root t
    | Err e -> err e in
  match f with
  | ["G"; p; c; s; e; incl; ext] ->
      with1 p (fun self ->
        let c = cls_of_name c and s = z_of_int (int_of_string s) and e = z_of_int (int_of_string e) in
        let taken = h_extend_taken h self c s (bool_of ext) in
        match h_group_tokens_py h self c s e (bool_of incl) (bool_of ext) with
        | Ok (h', g) -> (h', "g=" ^ path_of h' root g ^ ";x=" ^ (if taken then "1" else "0"), false)
        | Err RecursionError -> (h, err RecursionError, true)
        | Err x -> (h, err x, false))
  | ["IB"; p; w; v] | ["IA"; p; w; _; v] ->
      with1 p (fun self ->
        let where_ =
          if String.length w > 0 && w.[0] = '@' then
            (match resolve h root (String.sub w 1 (String.length w - 1)) with
             | Some t -> Some (Inr t) | None -> None)
          else Some (Inl (z_of_int (int_of_string w))) in
        match where_ with
        | None -> (h, "BADPATH", false)
        | Some where_ ->
            let (h1, tok) = h_new_leaf h [Text; Whitespace] (parse_text v) in
            let r = match f with
              | ["IB"; _; _; _] -> h_insert_before h1 self where_ tok
              | ["IA"; _; _; sw; _] -> h_insert_after h1 self where_ tok (bool_of sw)
              | _ -> Err Stuck in
            (match r with Ok h' -> (h', "ok", false) | Err x -> (h, err x, false)))
  | ["N"; p; i; sw; scm] ->
      with1 p (fun g -> q (tokres (h_token_next h g (z_of_int (int_of_string i)) (bool_of sw) (bool_of scm) false)))
  | ["P"; p; i; sw; scm] ->
      with1 p (fun g -> q (tokres (h_token_prev h g (z_of_int (int_of_string i)) (bool_of sw) (bool_of scm))))
  | ["M"; p; s; e; rev; sw; scm] ->
      with1 p (fun g ->
        let e = if e = "N" then None else Some (z_of_int (int_of_string e)) in
        q (tokres (h_token_matching h g (skip_matcher (bool_of sw) (bool_of scm)) (z_of_int (int_of_string s)) e (bool_of rev))))
  | ["F"; p; sw; scm] ->
      with1 p (fun g -> q (match h_token_first h g (bool_of sw) (bool_of scm) with
                           | Ok None -> "None" | Ok (Some t) -> path_of h root t | Err e -> err e))
  | ["X"; p; t; s] ->
      with1 p (fun g -> with1 t (fun t ->
        q (match h_token_index h g t (z_of_int (int_of_string s)) with
           | Ok z -> string_of_int (int_of_z z) | Err e -> err e)))
  | ["A"; a; b] ->
      with1 a (fun a -> with1 b (fun b -> q (match h_has_ancestor h a b with Ok x -> pybool x | Err e -> err e)))
  | ["C"; a; b] ->
      with1 a (fun a -> with1 b (fun b -> q (match h_is_child_of h a b with Ok x -> pybool x | Err e -> err e)))
  | ["W"; a; c] ->
      with1 a (fun a -> q (match h_within h a (cls_of_name c) with Ok x -> pybool x | Err e -> err e))
  | ["O"; p; off] ->
      with1 p (fun g -> q (match h_get_token_at_offset h g (z_of_int (int_of_string off)) with
                           | Ok None -> "None" | Ok (Some t) -> path_of h root t | Err e -> err e))
  | ["FL"; p] ->
      with1 p (fun g -> q (match h_flatten h g with
                           | Some l -> String.concat "," (List.map (path_of h root) l)
                           | None -> err RecursionError))
  | ["RT"; p] ->
      with1 p (fun i -> (set_ttype h i [Operator], "ok", false))
  | _ -> (h, "BADOP", false)

let () =
  register "heapops" (function
    | [k; si; t; ops] ->
        let r = if k = "all" then cur_parse (parse_text t) else cur_parse_upto (nat_of_int (int_of_string k)) (parse_text t) in
        (match r with
         | Err e -> "ERR " ^ exn_name e
         | Ok stmts ->
             let si = int_of_string si in
             if si < 0 || si >= List.length stmts then "NOSTMT" else
             let (h0, root) = of_node (List.nth stmts si) in
             let ops = if ops = "-" || ops = "" then [] else String.split_on_char '/' ops in
             let rec go h acc = function
               | [] -> (h, List.rev acc, false)
               | op :: rest ->
                   let (h', s, stop) = run_op h root op in
                   if stop then (h', List.rev (s :: acc), true) else go h' (s :: acc) rest in
             let (h, results, stopped) = go h0 [] ops in
             "OK " ^ String.concat "|" results ^ " # " ^ (if stopped then "STOPPED" else dump h root))
    | _ -> "BAD")
