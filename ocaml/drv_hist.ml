(* C20: history machine.
     hist <op,op,...>    configuration of the default lexer after the history from a fresh process ('-' = empty history)
                         ops: P call that reaches the lexer | N call that does not (invalid options, generator never
                         advanced) | C clear | R<id> set_SQL_REGEX | K<id> add_keywords | D default_initialization |
                         G get_default_instance
                         reply: "none"  or  <rule list id or ->:<k.k.k>
     xinit <k>           state left when the first initialisation is interrupted after k statements:
                         "none" (no instance) or <cleared><regex_set>:<k.k.k> (as a heap object of `sched`)
     xinitlen            number of statements of the initialisation sequence
     xinitflag           "true" when some interruption point leaves a published instance that is not the finished
                         lexer (HistoryX.publishes_before_initb on the generated program), else "false" *)
open Sqlmodel
open Drv_common

let op_of_string s =
  if s = "" then failwith "empty op" else
  let arg () = nat_of_int (int_of_string (String.sub s 1 (String.length s - 1))) in
  match s.[0] with
  | 'P' -> OParse []
  | 'N' -> OFormatInvalid O
  | 'C' -> OClear
  | 'R' -> OSetRegex (arg ())
  | 'K' -> OAddKw (arg ())
  | 'D' -> ODefaultInit
  | 'G' -> OGetInstance
  | _ -> failwith ("bad op " ^ s)

let kws_str k = String.concat "." (List.map (fun x -> string_of_int (int_of_nat x)) k)

let () =
  register "hist" (function
    | [h] ->
        let ops = if h = "-" then [] else List.map op_of_string (String.split_on_char ',' h) in
        (match hist_obs ops with
         | None -> "none"
         | Some (rx, k) -> (match rx with None -> "-" | Some r -> string_of_int (int_of_nat r)) ^ ":" ^ kws_str k)
    | _ -> "BAD");
  register "xinit" (function
    | [k] ->
        (match xinit_obs (nat_of_int (int_of_string k)) with
         | None -> "none"
         | Some (c, (r, ks)) -> (if c then "1" else "0") ^ (if r then "1" else "0") ^ ":" ^ kws_str ks)
    | _ -> "BAD");
  register "xinitlen" (function _ -> string_of_int (int_of_nat xinit_len));
  register "xinitflag" (function _ -> if xinit_publishes_early then "true" else "false")
