(* split <0|1> <text>  ->  OK piece|piece|...   (a piece is a code-point list, '-' when empty) *)
open Sqlmodel
open Drv_common

let piece_str p = if p = [] then "-" else text_str p

let () =
  register "split" (function
    | [flag; t] when flag = "0" || flag = "1" ->
        res_str (fun ps -> String.concat "|" (List.map piece_str ps)) (cur_split (flag = "1") (parse_text t))
    | _ -> "BAD")
