(* acc <text>: every accessor of every node of every statement parse() returns, canonical form
   reply: OK frag;frag;...   frag = <path>:<accessor>=<value>
   value: None | True | False | S<code points> | !<exception> | <abs path> | [v/v/...] | (v~v) *)
open Sqlmodel
open Drv_common

let aname_str = function
  | A_get_type -> "get_type" | A_get_alias -> "get_alias" | A_get_real_name -> "get_real_name"
  | A_get_name -> "get_name" | A_get_parent_name -> "get_parent_name" | A_has_alias -> "has_alias"
  | A_first_name -> "_get_first_name" | A_is_wildcard -> "is_wildcard" | A_get_typecast -> "get_typecast"
  | A_get_ordering -> "get_ordering" | A_get_array_indices -> "get_array_indices"
  | A_get_identifiers -> "get_identifiers" | A_get_parameters -> "get_parameters"
  | A_get_window -> "get_window" | A_get_cases -> "get_cases" | A_get_cases_skip -> "get_cases_skip"
  | A_left -> "left" | A_right -> "right" | A_is_multiline -> "is_multiline"

let path_str p = String.concat "." (List.map (fun i -> string_of_int (int_of_nat i)) p)

let rec aval_str prefix = function
  | VNone -> "None"
  | VBool b -> if b then "True" else "False"
  | VText t -> "S" ^ (if t = [] then "-" else text_str t)
  | VPath p -> path_str (prefix @ p)
  | VList l -> "[" ^ String.concat "/" (List.map (aval_str prefix) l) ^ "]"
  | VPair (a, b) -> "(" ^ aval_str prefix a ^ "~" ^ aval_str prefix b ^ ")"
  | VErr e -> "!" ^ exn_name e

let () =
  register "acc" (function
    | [t] ->
        res_str (fun stmts ->
            String.concat ";" (List.map (fun ((p, a), v) -> path_str p ^ ":" ^ aname_str a ^ "=" ^ aval_str p v)
                                 (acc_dump stmts)))
          (cur_parse (parse_text t))
    | _ -> "BAD")
