(* C15 commands: depths of the parsed statements; outcome class of the budget model *)
open Sqlmodel
open Drv_common

let outcome f = function Ok v -> "OK " ^ f v | Err e -> "ERR " ^ exn_name e

let () =
  register "depths" (function
    | [t] -> res_str (fun ds -> String.concat "," (List.map (fun d -> string_of_int (int_of_nat d)) ds))
               (cur_depths (parse_text t))
    | _ -> "BAD");
  (* budget <parse|split> <L> <text>  ->  OK <number of statements> | ERR <exception> *)
  register "budget" (function
    | ["parse"; l; t] ->
        outcome (fun v -> string_of_int (List.length v)) (cur_parse_budget (nat_of_int (int_of_string l)) (parse_text t))
    | ["split"; l; t] ->
        outcome (fun v -> string_of_int (List.length v)) (cur_split_budget (nat_of_int (int_of_string l)) (parse_text t))
    | _ -> "BAD")
