(* C19 commands: uescape, decode, apisplit, apiparse
   <form> is one of: none | utf-8 | latin-1 (bytes without / with encoding), str, stream, other *)
open Sqlmodel
open Drv_common

let input_of form payload =
  let xs = parse_text payload in
  match form with
  | "none" -> Some (IBytes (xs, None))
  | "utf-8" -> Some (IBytes (xs, Some CUtf8))
  | "latin-1" -> Some (IBytes (xs, Some CLatin1))
  | "str" -> Some (IStr xs)
  | "stream" -> Some (IStream xs)
  | "other" -> Some IOther
  | _ -> None

let texts_str ts = String.concat "|" (List.map text_str ts)

let () =
  register "uescape" (function
    | [b] -> res_str text_str (unicode_escape_decode (parse_text b))
    | _ -> "BAD");
  register "decode" (function
    | [form; b] -> (match input_of form b with Some i -> res_str text_str (decode_input i) | None -> "BAD")
    | _ -> "BAD");
  register "apisplit" (function
    | [form; b] -> (match input_of form b with Some i -> res_str texts_str (api_split i) | None -> "BAD")
    | _ -> "BAD");
  register "apiparse" (function
    | [form; b] -> (match input_of form b with Some i -> res_str nodes_str (api_parse i) | None -> "BAD")
    | _ -> "BAD")
