(* strip_whitespace / use_space_around_operators / serializer slice:
   stripws, spaces, stripsemi, serialize, sun, swwf, format_sw, format_sp, format_spsw, format_plain *)
open Sqlmodel
open Drv_common

let texts_str ts = String.concat "|" (List.map (fun t -> match t with [] -> "-" | _ -> text_str t) ts)
let out_text t = match t with [] -> "-" | _ -> text_str t

let () =
  register "stripws" (function
    | [t] -> res_str nodes_str (parse_then stripws (parse_text t)) | _ -> "BAD");
  register "spaces" (function
    | [t] -> res_str nodes_str (parse_then spaces (parse_text t)) | _ -> "BAD");
  register "spacesws" (function
    | [t] -> res_str nodes_str (parse_then (fun n -> match spaces n with Ok n1 -> stripws n1 | Err e -> Err e) (parse_text t))
    | _ -> "BAD");
  register "stripsemi" (function
    | [t] -> res_str nodes_str (split_strip_semicolon (parse_text t)) | _ -> "BAD");
  register "serialize" (function
    | [t] -> res_str texts_str (serialize_parsed (parse_text t)) | _ -> "BAD");
  (* the serializer on a raw text (not parsed) *)
  register "serialize_raw" (function
    | [t] -> res_str out_text (serialize (parse_text t)) | _ -> "BAD");
  register "sun" (function
    | [t] -> res_str texts_str (split_unquoted_newlines (parse_text t)) | _ -> "BAD");
  (* does every parsed statement satisfy the well-formedness predicate of stripws_total? *)
  register "swwf" (function
    | [t] -> res_str (fun ns -> String.concat "," (List.map (fun n -> if sw_wf n then "1" else "0") ns)) (cur_parse (parse_text t))
    | _ -> "BAD");
  register "format_sw" (function [t] -> res_str out_text (format_sw (parse_text t)) | _ -> "BAD");
  register "format_sp" (function [t] -> res_str out_text (format_sp (parse_text t)) | _ -> "BAD");
  register "format_spsw" (function [t] -> res_str out_text (format_sp_sw (parse_text t)) | _ -> "BAD");
  register "format_plain" (function [t] -> res_str out_text (format_plain (parse_text t)) | _ -> "BAD")
