(* aligned-indent slice: aligned <text> | aligned_tree <text> *)
open Sqlmodel
open Drv_common

let () =
  register "aligned" (function
    | [t] -> res_str text_str (cur_aligned (parse_text t))
    | _ -> "BAD");
  register "aligned_tree" (function
    | [t] -> res_str nodes_str (cur_aligned_trees (parse_text t))
    | _ -> "BAD")

(* alsafe <text>: al_safe of every grouped + whitespace-stripped statement *)
let () =
  register "alsafe" (function
    | [t] -> res_str (fun l -> String.concat "," (List.map (fun b -> if b then "1" else "0") l))
               (cur_alsafe (parse_text t))
    | _ -> "BAD")
