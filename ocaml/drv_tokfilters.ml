(* token-stream filter commands:
   strconv <upper|lower|capitalize> <text>                       -> OK <text>
   tokfilter <kw|id|tr> <param> <text>                           -> OK tok|tok...   (lexer + one filter)
        param: upper|lower|capitalize for kw/id;  <width>:<char code points or -> for tr
   tokfmt <kwcase|-> <idcase|-> <width:char|-> <text>            -> lexer + the preprocess stack of format()
   tokfilterraw <kwcase|-> <idcase|-> <width:char|-> <tokens>    -> the same on an explicit token list
        tokens: Type.Path:cps|Type.Path:cps...  ('-' for the empty list) *)
open Sqlmodel
open Drv_common

let z_of_int i = if i = 0 then Z0 else if i > 0 then Zpos (pos_of_int i) else Zneg (pos_of_int (- i))

let conv_of = function
  | "upper" -> Some CUpper | "lower" -> Some CLower | "capitalize" -> Some CCapitalize
  | "-" -> None | s -> failwith ("conv " ^ s)

let trunc_of s =
  if s = "-" then None else
  match String.index_opt s ':' with
  | Some i -> Some (z_of_int (int_of_string (String.sub s 0 i)),
                    parse_text (String.sub s (i + 1) (String.length s - i - 1)))
  | None -> failwith "trunc"

let all_tcomp = [Text; Whitespace; Newline; Error; Other; Keyword; Name; Literal; String; Number;
  Punctuation; Operator; Comparison; Wildcard; Comment; Assignment; Generic; Command; DML; DDL; CTE;
  Single; Multiline; Hint; Placeholder; Builtin; Symbol; Hexadecimal; Float; Integer; Order; TZCast;
  Heading; Subheading; Deleted; Inserted; Output; Emph; Strong; Prompt; Traceback; Token_; DCL]

let tcomp_of s = List.find (fun c -> tcomp_name c = s) all_tcomp

let parse_tok s =
  match String.index_opt s ':' with
  | Some i ->
      let ty = String.sub s 0 i in
      let ty = if ty = "" then [] else List.map tcomp_of (String.split_on_char '.' ty) in
      (ty, parse_text (String.sub s (i + 1) (String.length s - i - 1)))
  | None -> failwith "tok"

let parse_toks s = if s = "-" || s = "" then [] else List.map parse_tok (String.split_on_char '|' s)

let toks_str toks = String.concat "|" (List.map tok_str toks)

let () =
  register "strconv" (function
    | [c; t] -> (match conv_of c with
                 | Some cv -> "OK " ^ text_str (cur_conv cv (parse_text t))
                 | None -> "BAD")
    | _ -> "BAD");
  register "tokfilter" (function
    | [kind; param; t] ->
        let r = match kind with
          | "kw" -> cur_preprocess (conv_of param) None None (parse_text t)
          | "id" -> cur_preprocess None (conv_of param) None (parse_text t)
          | "tr" -> cur_preprocess None None (trunc_of param) (parse_text t)
          | _ -> failwith "kind" in
        res_str toks_str r
    | _ -> "BAD");
  register "tokfmt" (function
    | [kw; id; tr; t] -> res_str toks_str (cur_preprocess (conv_of kw) (conv_of id) (trunc_of tr) (parse_text t))
    | _ -> "BAD");
  register "tokfilterraw" (function
    | [kw; id; tr; ts] -> res_str toks_str (preprocess (conv_of kw) (conv_of id) (trunc_of tr) (parse_toks ts))
    | _ -> "BAD")
