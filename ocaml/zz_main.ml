(* main loop: <cmd> <args...> per line, one reply line each *)
let () =
  try
    while true do
      let line = input_line stdin in
      let reply =
        match String.split_on_char ' ' line with
        | cmd :: args ->
            (match Hashtbl.find_opt Drv_common.handlers cmd with
             | Some f -> (try f args with Stack_overflow -> "CRASH stack" | Not_found -> "CRASH notfound" | Failure m -> "CRASH " ^ m)
             | None -> "BAD " ^ line)
        | [] -> "BAD"
      in
      print_string reply; print_newline ()
    done
  with End_of_file -> ()
