(* C20: schedules of the singleton machine.
     sched <nthreads> <t0,t1,...>                 final state of the generated program ('-' = empty schedule)
     schedtrace <nthreads> <t0,t1,...>            state after every step, separated by " / "
     schedp <prog> <nthreads> <sched>             same for an explicit program  (prog = instructions separated
     schedptrace <prog> <nthreads> <sched>         by ';', arguments after '_':  IAcquire;IJumpIfInst_15;...;IAddKw_3)
     schedpviol <prog> <nthreads> <sched>         violation code (SchedObs.violation) after every step, ','-separated
     schedprog                                    the generated program in that syntax
     welllocked <prog>|gen                        the structural check the proofs rest on
     progshape <prog>|gen                         which of the two accepted shapes: publish-first | publish-last | none
   state syntax:  T<pc>:<ret or ->,...;H<c><r>:<k.k.k>,...;L<holder or ->;I<inst or -> *)
open Sqlmodel
open Drv_common

let ints s = if s = "" || s = "-" then [] else List.map int_of_string (String.split_on_char ',' s)
let nats s = List.map nat_of_int (ints s)
let opt_str = function None -> "-" | Some n -> string_of_int (int_of_nat n)
let b01 b = if b then "1" else "0"

let obs_str (ths, (heap, (lock, inst))) =
  "T" ^ String.concat "," (List.map (fun (pc, r) -> string_of_int (int_of_nat pc) ^ ":" ^ opt_str r) ths)
  ^ ";H" ^ String.concat "," (List.map (fun (c, (r, k)) ->
        b01 c ^ b01 r ^ ":" ^ String.concat "." (List.map (fun x -> string_of_int (int_of_nat x)) k)) heap)
  ^ ";L" ^ opt_str lock ^ ";I" ^ opt_str inst

let instr_of_string s =
  match String.split_on_char '_' s with
  | ["IAcquire"] -> IAcquire | ["IRelease"] -> IRelease | ["INewAssign"] -> INewAssign
  | ["ILoadSelf"] -> ILoadSelf | ["INewLocal"] -> INewLocal | ["IPublishSelf"] -> IPublishSelf
  | ["IClear"] -> IClear | ["ISetRegex"] -> ISetRegex | ["IReturn"] -> IReturn
  | ["IJumpIfInst"; n] -> IJumpIfInst (nat_of_int (int_of_string n))
  | ["IAddKw"; n] -> IAddKw (nat_of_int (int_of_string n))
  | _ -> failwith ("bad instruction " ^ s)

let string_of_instr = function
  | IAcquire -> "IAcquire" | IRelease -> "IRelease" | INewAssign -> "INewAssign" | ILoadSelf -> "ILoadSelf"
  | INewLocal -> "INewLocal" | IPublishSelf -> "IPublishSelf"
  | IClear -> "IClear" | ISetRegex -> "ISetRegex" | IReturn -> "IReturn"
  | IJumpIfInst n -> "IJumpIfInst_" ^ string_of_int (int_of_nat n)
  | IAddKw n -> "IAddKw_" ^ string_of_int (int_of_nat n)

let prog_of_string s =
  if s = "gen" then sched_prog
  else if s = "-" then [] else List.map instr_of_string (String.split_on_char ';' s)

let () =
  register "sched" (function
    | [n; s] -> obs_str (sched_final (nat_of_int (int_of_string n)) (nats s))
    | _ -> "BAD");
  register "schedtrace" (function
    | [n; s] -> String.concat " / " (List.map obs_str (sched_trace (nat_of_int (int_of_string n)) (nats s)))
    | _ -> "BAD");
  register "schedp" (function
    | [p; n; s] -> obs_str (schedp_final (prog_of_string p) (nat_of_int (int_of_string n)) (nats s))
    | _ -> "BAD");
  register "schedptrace" (function
    | [p; n; s] -> String.concat " / " (List.map obs_str (schedp_trace (prog_of_string p) (nat_of_int (int_of_string n)) (nats s)))
    | _ -> "BAD");
  register "schedpviol" (function
    | [p; n; s] -> String.concat "," (List.map (fun v -> string_of_int (int_of_nat v))
                                        (schedp_violation (prog_of_string p) (nat_of_int (int_of_string n)) (nats s)))
    | _ -> "BAD");
  register "schedprog" (function
    | _ -> String.concat ";" (List.map string_of_instr sched_prog));
  register "progshape" (function
    | [p] -> (match sched_shape (prog_of_string p) with
              | Some false -> "publish-first" | Some true -> "publish-last" | None -> "none")
    | _ -> "BAD");
  register "welllocked" (function
    | [p] -> if sched_well_locked (prog_of_string p) then "true" else "false"
    | _ -> "BAD")
