(* commands: stripcomments <text>   tree dump after cur_parse + strip_comments on every statement
             scsearch <text>        group 1 of re.search(r'([\r\n]+) *$', text), or None
             scpreds <text>         the hypotheses/conclusions of the theorems of Filters/StripCommentsFacts.v
                                    evaluated on the parse (pure noadj hintled) and on the result (residue clean) *)
open Sqlmodel
open Drv_common

let () =
  register "stripcomments" (function
    | [t] ->
        (match cur_parse (parse_text t) with
         | Err e -> "ERR " ^ exn_name e
         | Ok stmts -> res_str nodes_str (strip_comments_all stmts))
    | _ -> "BAD");
  register "scsearch" (function
    | [t] ->
        (match nl_search (parse_text t) with
         | Some s -> "OK " ^ (if s = [] then "-" else text_str s)
         | None -> "OK None")
    | _ -> "BAD");
  register "scpreds" (function
    | [t] ->
        (match cur_parse (parse_text t) with
         | Err e -> "ERR " ^ exn_name e
         | Ok stmts ->
             (match strip_comments_all stmts with
              | Err e -> "ERR " ^ exn_name e
              | Ok out ->
                  let b f l = if List.for_all f l then "1" else "0" in
                  Printf.sprintf "OK pure=%s noadj=%s hintled=%s residue=%s clean=%s"
                    (b comments_pure stmts) (b no_adjacent_comments stmts) (b hint_led stmts)
                    (b residue_ok out) (b no_plain_comment out)))
    | _ -> "BAD")
